"""
C02 -- assignments are the plurality of bootstrapped nearest-centroid votes.

Refinement of a RECORDED HISTORY: inside every simulated worker, wrappers at the randomness seam
record the cell ids of the chunk, per node visit the gene names / leaves / matrices handed to the
vote tally, and per iteration the drawn column subset.  The oracle recomputes votes, winner,
probability, average correlation and runners-up from the INPUT files (by gene name) and the
recorded subsets, with a 1e-9 ambiguity margin; it never replays the random stream.
"""
from sim import world
from . import common, mapfam

ID = 'C02'
LEVEL = 'exploration'
QUOTA = {'quick': 1500, 'thorough': 10000}
BUDGET = {'quick': 100, 'thorough': 900}
RULE = ('scenario = generated world x run configuration x seeded schedule, with the bootstrap draws recorded '
        'inside the workers; an evaluation is one (cell, node) result recomputed from input files and recorded '
        'subsets; non-trivial = at least one node with >= 2 children was voted on by >= 2 chunks or under a '
        'reduced taxonomy; distinct by hash of (world parameters, configuration)')
ASSUMPTIONS = ['ties: an iteration whose best candidate leads the best candidate of another child by < 1e-9 may '
               'vote for either; reported counts are checked against the resulting [min,max] interval',
               'the recording wrappers (election.tally_votes, assemble_query_data, worker entry) are found by name; '
               'their absence is a harness error (exit 2), not a violation']
ORACLE = 'C02'


def gen(rng, tier, idx):
    wp = world.draw_world_params(rng)
    wp['n_query'] = rng.choice([1, 2, 3, 5, 8, 12])
    wp['n_genes'] = rng.choice([6, 8, 12, 16, 24]) if rng.random() > 0.03 else 300
    W = world.make_world(wp)
    mcfg = common.draw_mapping_cfg(rng, W)
    mcfg['min_markers'] = max(1, mcfg['min_markers'])
    # mostly few iterations (every drawn subset is recorded and re-voted by the model); now and then enough of them
    # for one child to collect more than 2**8 votes
    mcfg['bootstrap_iteration'] = rng.choice([1, 2, 3, 5, 9]) if rng.random() > 0.04 else rng.choice([256, 300])
    return {'wp': wp, 'cfg': mcfg, 'sched': common.draw_sched(rng), 'kcfg': common.draw_kernel_cfg(rng)}


def run(scn, sb):
    return mapfam.single_run(scn, sb, ORACLE)


def shrink(scn, violation=None):
    return mapfam.shrink_single(scn)
