"""
NOT a property of the repository: a toy used by selftest/history_selftest.py to exercise the orchestrator's
history-aware confirmation (DESIGN section 3.6).  The "system under test" keeps a process-lifetime cache keyed
by path; every scenario of a shard writes another value to the same sandbox path, so from the second scenario of
a shard on the cached (stale) value is returned.  A single scenario replayed in a fresh process is correct.
"""
ID = 'ZZHIST'
LEVEL = 'exploration'
QUOTA = {'quick': 48, 'thorough': 48}
BUDGET = {'quick': 30, 'thorough': 30}
RULE = 'toy: one scenario = write a value to a fixed path, read it back through a path-keyed cache'
ASSUMPTIONS = ['toy module, not registered in MANIFEST.json']

_CACHE = {}


def _read_through_cache(path):
    if path not in _CACHE:
        with open(path) as f:
            _CACHE[path] = f.read()
    return _CACHE[path]


def gen(rng, tier, idx):
    return {'value': rng.randrange(10 ** 6)}


def run(scn, sb):
    res = {'violations': [], 'probes': {}, 'faults': {}, 'interleavings': [], 'not_judged': {}, 'evaluations': 1,
           'nontrivial': True, 'key': str(scn['value'])}
    p = sb.p('in', 'value.txt')
    with open(p, 'w') as f:
        f.write(str(scn['value']))
    got = _read_through_cache(p)
    if got != str(scn['value']):
        res['violations'].append({'cls': 'stale-read', 'detail': 'read %r, file holds %r' % (got, scn['value'])})
    return res


def shrink(scn, violation=None):
    return []
