"""
C20 -- cloud-safe outputs reveal no absolute path of the host.

Fault injection is what reaches the message space: every scenario draws a directory layout with
punctuation-laden names, runs the mapping CLI body with cloud_safe=True, and either succeeds or
fails through an injected worker death, a full disk, a parent I/O error, or one class of invalid
input.  The oracle scans 'config' and 'log' of the JSON output, 'config' and 'log' of the HDF5
metadata and the log file for absolute paths that exist on the host; it is independent of the
repository's own is_exposed.
"""
import json
import os
import random
import re

import numpy as np

from sim import drivers, harness, kernel, model, world
from sim.kernel import KERNEL
from . import common, mapfam

ID = 'C20'
LEVEL = 'exploration'
QUOTA = {'quick': 2200, 'thorough': 12000}
BUDGET = {'quick': 100, 'thorough': 900}
CASES = ['success', 'success', 'worker', 'worker', 'diskfull', 'parent_io', 'parent_io', 'query_missing',
         'query_truncated', 'query_not_hdf5', 'query_no_x', 'stats_no_sum', 'stats_no_n_cells', 'stats_no_tree',
         'stats_not_hdf5', 'stats_missing', 'markers_missing', 'markers_not_json', 'markers_no_root',
         'markers_unknown_gene', 'markers_disjoint', 'negative_raw', 'bad_normalization', 'leaf_drop_level',
         'duplicate_genes', 'output_dir_missing']
OTF_CASES = ('success', 'worker', 'diskfull', 'parent_io', 'query_missing', 'query_truncated', 'query_not_hdf5',
             'stats_no_sum', 'stats_not_hdf5', 'stats_missing', 'negative_raw', 'output_dir_missing')
RULE = ('scenario = random directory layout (depth 1-4; names over letters, digits and . _ - + @ ~ # % , [ ] ( ) { } =) x '
        'one run class (success, worker death from the C14 grid, full disk on CSC input, parent I/O error at the k-th '
        'write event, or one class of invalid input) with cloud_safe=True; non-trivial = the run failed through the '
        'planted cause (or succeeded for the success class) and wrote at least a log; distinct by hash of (layout, case, '
        'configuration)')
ASSUMPTIONS = [
    'a path is "of the host" if it, or any prefix of it with at least one component, exists in the file system at scan time',
    'only config and log are scanned; the taxonomy_tree entry (whose metadata records the path of its source file) '
    'is neither configuration nor log; URLs are not paths',
    'names contain no whitespace and no quote characters (as the property states)',
]
NAME_CHARS = 'abcXYZ019._-+@~#%,[](){}='
PATH_CHAR = r"A-Za-z0-9._\-+@~#%,\[\](){}=/"
CAND = re.compile(r"(?:(?<=^)|(?<=[\s\"'\[\](){},=;<>|`]))/(?!/)[" + PATH_CHAR + r"]*", re.M)


def host_paths(text):
    """absolute paths in `text` that exist on the host (or have an existing prefix)"""
    found = []
    for m in CAND.finditer(text):
        cand = m.group(0)
        if cand in ('/', '/.'):
            continue
        parts = [p for p in cand.split('/') if p]
        cur = ''
        hit = None
        for p in parts:
            cur = cur + '/' + p
            if os.path.lexists(cur):
                hit = cur
            else:
                # a trailing punctuation run may belong to the sentence, not the name
                stripped = cur.rstrip('.,)]}=;')
                if stripped != cur and stripped not in ('', '/') and os.path.lexists(stripped):
                    hit = stripped
                break
        if hit is not None and hit not in ('/', '/.'):
            found.append((cand, hit))
    return found


def rand_name(rng):
    n = rng.randint(1, 8)
    s = ''.join(rng.choice(NAME_CHARS) for _ in range(n))
    if s in ('.', '..') or s.startswith('-'):
        s = 'd' + s
    return s


def gen(rng, tier, idx):
    case = CASES[idx % len(CASES)]
    layout = {}
    for d in ('in', 'out', 'scratch', 'systmp'):
        depth = rng.randint(1, 4)
        layout[d] = os.path.join(d[:2] + rand_name(rng), *[rand_name(rng) for _ in range(depth - 1)])
    names = {k: rand_name(rng) for k in ('query', 'stats', 'markers', 'tag')}
    wp = world.draw_world_params(rng, single_top=False, q_all_zero=False)
    wp['n_query'] = rng.choice([2, 4, 6, 9])
    W = world.make_world(wp)
    mcfg = common.draw_mapping_cfg(rng, W, cloud_safe=True, transport='dir')
    mcfg['min_markers'] = max(1, mcfg['min_markers'])
    mcfg['n_processors'] = rng.randint(2, 4)
    mcfg['chunk_size'] = rng.randint(1, 3)
    if case == 'diskfull':
        mcfg['encoding'] = 'csc'
    scn = {'case': case, 'layout': layout, 'names': names, 'wp': wp, 'cfg': mcfg,
           'sched': common.draw_sched(rng), 'kcfg': common.draw_kernel_cfg(rng), 'seed': rng.randrange(2 ** 31)}
    # one run in five goes through the on-the-fly-marker entry point, which sanitises its configuration itself
    if case in OTF_CASES and rng.random() < 0.45:
        from . import stages
        o = stages.gen_stage(rng, 'otf')
        o['cfg']['cloud_safe'] = True
        o['wp']['n_query'] = rng.choice([2, 4, 6])
        scn.update(entry='otf', wp=o['wp'], cfg=o['cfg'])
        if case == 'diskfull':
            scn['cfg']['encoding'] = 'csc'
    if case == 'worker':
        scn['fault'] = {'worker': rng.randint(0, 2) if scn.get('entry') != 'otf' else rng.randint(0, 9), 'mode': rng.choice(['kill', 'exit', 'raise']),
                        'point': rng.choice(['before', 'mid', 'after']), 'k': rng.randint(1, 3),
                        'code': rng.choice([1, 2, 3])}
    if case == 'parent_io':
        scn['fault'] = {'at': rng.randint(1, 14), 'errno': rng.choice([28, 5, 13])}
    return scn


def _corrupt(scn, sb, W, paths, rng):
    import h5py
    case = scn['case']
    cfg_over = {}
    if case == 'query_missing':
        os.unlink(paths['query'])
    elif case == 'query_truncated':
        with open(paths['query'], 'rb') as f:
            b = f.read()
        with open(paths['query'], 'wb') as f:
            f.write(b[:max(1, len(b) // 2)])
    elif case == 'query_not_hdf5':
        with open(paths['query'], 'wb') as f:
            f.write(b'this is not an hdf5 file\n' * 20)
    elif case == 'query_no_x':
        with h5py.File(paths['query'], 'a') as f:
            del f['X']
    elif case in ('stats_no_sum', 'stats_no_n_cells', 'stats_no_tree'):
        key = {'stats_no_sum': 'sum', 'stats_no_n_cells': 'n_cells', 'stats_no_tree': 'taxonomy_tree'}[case]
        with h5py.File(paths['stats'], 'a') as f:
            del f[key]
    elif case == 'stats_not_hdf5':
        with open(paths['stats'], 'wb') as f:
            f.write(b'\x00\x01garbage' * 50)
    elif case == 'stats_missing':
        os.unlink(paths['stats'])
    elif case == 'markers_missing':
        os.unlink(paths['markers'])
    elif case == 'markers_not_json':
        with open(paths['markers'], 'w') as f:
            f.write('{"None": ["gene_1", ')
    elif case == 'markers_no_root':
        d = common.load_json(paths['markers'])
        d.pop('None', None)
        with open(paths['markers'], 'w') as f:
            json.dump(d, f)
    elif case == 'markers_unknown_gene':
        d = common.load_json(paths['markers'])
        d['None'] = list(d.get('None', [])) + ['gene_from_nowhere']
        with open(paths['markers'], 'w') as f:
            json.dump(d, f)
    elif case == 'markers_disjoint':
        d = {'None': ['zz_%d' % i for i in range(3)]}
        with open(paths['markers'], 'w') as f:
            json.dump(d, f)
    elif case == 'bad_normalization':
        cfg_over['normalization'] = 'log10CPM'
    elif case == 'leaf_drop_level':
        cfg_over['drop_level'] = W.tax.leaf_level
    return cfg_over


def run(scn, sb):
    res = {'violations': [], 'probes': {}, 'faults': {}, 'interleavings': [], 'not_judged': {}}
    rng = random.Random(scn['seed'])
    W = world.make_world(scn['wp'])
    case = scn['case']
    mcfg = dict(scn['cfg'])
    nm = scn['names']
    common.begin(sb, scn['kcfg'])
    try:
        X = W.q_X
        q_genes = list(W.q_genes)
        if case == 'negative_raw':
            X = W.q_X.copy()
            X[0, 0] = -3.0
        if case == 'duplicate_genes' and len(q_genes) > 1:
            q_genes[1] = q_genes[0]
        stats = sb.p('in', nm['stats'] + '.h5')
        mk = sb.p('in', nm['markers'] + '.json')
        qp = sb.p('in', nm['query'] + '.h5ad')
        W.write_stats_file(stats)
        W.write_markers(mk)
        world.write_h5ad(qp, X, W.q_ids, q_genes, encoding=mcfg['encoding'])
        paths = {'stats': stats, 'markers': mk, 'query': qp}
        over = _corrupt(scn, sb, W, paths, rng)
        mcfg.update({k: v for k, v in over.items() if k in ('drop_level',)})
        otf = scn.get('entry') == 'otf'
        if otf:
            from . import stages
            dcfg = stages.otf_driver_cfg(sb, {'query': qp, 'stats': stats}, mcfg, sb.p('out'))
            dcfg['hdf5_result_path'] = None
            dcfg['log_path'] = None
        else:
            dcfg = common.mapping_driver_cfg(sb, paths, mcfg, tag=nm['tag'])
        if 'normalization' in over:
            dcfg['type_assignment']['normalization'] = over['normalization']
        if case == 'output_dir_missing':
            # one of the requested outputs lies in a directory that does not exist (the JSON one is checked before
            # the run proper starts, the others when they are written)
            which = rng.choice(['csv_result_path', 'csv_result_path', 'extended_result_path', 'hdf5_result_path'])
            if dcfg.get(which) is None:
                which = 'csv_result_path'
            dcfg[which] = os.path.join(sb.p('out'), 'no_such_dir', 'x' + os.path.splitext(dcfg[which])[1])
            res['probes']['missing_dir_for_' + which] = 1
        sched = dict(scn['sched'])
        if case == 'worker':
            f = scn['fault']
            fl = {'point': f['point'], 'mode': f['mode'], 'code': f['code']}
            if f['point'] == 'mid':
                fl['k'] = f['k']
            sched['faults'] = {str(f['worker']): fl}
        if case == 'diskfull':
            KERNEL.statvfs_full = True
        if case == 'parent_io':
            KERNEL.parent_fault = {'at': KERNEL.parent_write_events + scn['fault']['at'],
                                   'errno': scn['fault']['errno']}
            KERNEL.parent_fault_fired = None
        try:
            out, s = harness.run_call(sched, drivers.run_otf if otf else drivers.run_mapping, dcfg)
        finally:
            fired_parent = KERNEL.parent_fault_fired
            KERNEL.statvfs_full = False
            KERNEL.parent_fault = None
        common.sched_stats(res, [s])
        # ---- what fired
        if case == 'worker':
            tr = kernel.read_child_traces(sb.trace, s.call_id)
            if any(r.get('ev') == 'fault' for recs in tr.values() for r in recs) or s.fired:
                res['faults']['worker_' + scn['fault']['mode']] = 1
        if case == 'diskfull' and KERNEL.statvfs_calls:
            res['faults']['disk_full'] = 1
        if case == 'parent_io' and fired_parent:
            res['faults']['parent_io_error'] = 1
        if case not in ('success', 'worker', 'diskfull', 'parent_io') and out[0] == 'raised':
            res['faults']['invalid_input:' + case] = 1
        # ---- scan
        texts = []
        jp = dcfg['extended_result_path']
        if os.path.exists(jp):
            try:
                blob = common.load_json(jp)
                texts.append(('json.config', json.dumps(blob.get('config'))))
                texts.append(('json.log', '\n'.join(str(x) for x in blob.get('log', []))))
            except Exception:
                pass
        hp = dcfg['hdf5_result_path']
        if hp is not None and os.path.exists(hp):
            try:
                import h5py
                with h5py.File(hp, 'r') as f:
                    md = json.loads(f['metadata'][()].decode('utf-8'))
                texts.append(('hdf5.config', json.dumps(md.get('config'))))
                texts.append(('hdf5.log', '\n'.join(str(x) for x in md.get('log', []))))
            except Exception:
                pass
        lp = dcfg['log_path']
        if lp is not None and os.path.exists(lp):
            with open(lp, errors='replace') as f:
                texts.append(('logfile', f.read()))
        n_scanned = 0
        for where, txt in texts:
            if not txt:
                continue
            n_scanned += len(txt)
            # json.dumps escapes; scan the unescaped text as well
            for t in (txt, txt.replace('\\n', '\n').replace('\\"', '"').replace('\\\\', '\\')):
                hp_ = host_paths(t)
                if hp_:
                    cand, hit = hp_[0]
                    under = 'sandbox' if hit.startswith(sb.base) else \
                        ('repo' if hit.startswith(drivers.repo_src()) else 'installation')
                    i = t.find(cand)
                    res['violations'].append({
                        'cls': 'host-path-in-%s' % where,
                        'detail': 'case %s outcome %s: %r exposes existing host path %r (%s); context: %r'
                                  % (case, out[0], cand, hit, under, t[max(0, i - 80):i + len(cand) + 40])})
                    break
        res['probes']['bytes_scanned'] = n_scanned
        res['probes']['outcome_' + out[0]] = 1
        if otf:
            res['probes']['on_the_fly_entry_point'] = 1
        planted_ok = (out[0] == 'ok') == (case == 'success')
        res['nontrivial'] = bool(texts) and (planted_ok or case in ('worker', 'diskfull', 'parent_io',
                                                                     'duplicate_genes', 'output_dir_missing'))
        res['key'] = model.canonical_json([scn['layout'], case, scn.get('entry'), scn['cfg'], scn.get('fault')])
        res['sample'] = {'case': case, 'layout': scn['layout'], 'outcome': out[0],
                         'message': (out[1] or '').replace(sb.base, '<sandbox>')[:160] if out[0] == 'raised' else None,
                         'scanned': [w for w, t in texts]}
        res['ticks'] = KERNEL.n_ticks
        return res
    finally:
        KERNEL.statvfs_full = False
        KERNEL.parent_fault = None
        sb.end()


def shrink(scn, violation=None):
    if scn['sched'].get('policy') != 'fifo':
        c = dict(scn)
        c['sched'] = {'policy': 'fifo', 'seed': 0}
        yield c
    simple = {d: d for d in ('in', 'out', 'scratch', 'systmp')}
    if scn['layout'] != simple:
        c = dict(scn)
        c['layout'] = simple
        yield c
    for wp in common.shrink_numbers(scn['wp'], ['n_query', 'n_leaves', 'depth', 'n_genes']):
        c = dict(scn)
        c['wp'] = wp
        yield c
