"""helpers shared by the property modules"""
import json
import os
import random

import numpy as np

from sim import drivers, harness, kernel, model, world
from sim.kernel import KERNEL

POLICIES = ['random', 'random', 'random', 'fifo', 'lifo', 'lazy', 'delayed_vis', 'perm']


def draw_sched(rng, n_workers_hint=6, pause=True):
    """one scheduler spec (JSON)"""
    pol = rng.choice(POLICIES)
    spec = {'policy': pol, 'seed': rng.randrange(2 ** 31)}
    if pol == 'random':
        spec['p_run'] = rng.choice([0.15, 0.5, 0.85])
        spec['p_vis'] = rng.choice([0.1, 0.5, 0.9])
    if pol == 'perm':
        perm = list(range(n_workers_hint))
        rng.shuffle(perm)
        spec['perm'] = perm
    if pause and rng.random() < 0.35:
        spec['pause_p'] = rng.choice([0.3, 0.7])
    return spec


def draw_kernel_cfg(rng):
    return {'name_seed': rng.randrange(2 ** 31), 'list_seed': rng.randrange(2 ** 31),
            'list_mode': rng.choice(['perm', 'perm', 'sorted', 'reversed']),
            'clock_start': rng.choice([1.7e9, 1.7e9 + 86399.5, 1.0e9, 4.0e9]),
            'clock_tick': rng.choice([0.001, 0.0, 0.5, 3600.0])}


def begin(sb, kcfg):
    sb.begin(name_seed=kcfg.get('name_seed', 0), list_seed=kcfg.get('list_seed', 0),
             clock_start=kcfg.get('clock_start', 1.7e9), clock_tick=kcfg.get('clock_tick', 0.001),
             list_mode=kcfg.get('list_mode', 'perm'))


def draw_mapping_cfg(rng, W, **force):
    """run configuration for a mapping call over world W (JSON)"""
    n = len(W.q_ids)
    tax = W.tax
    droppable = [lv for lv in tax.hierarchy[:-1]]
    r = rng.random()
    drop = None
    flatten = False
    if r < 0.2 and droppable:
        drop = rng.choice(droppable)
    elif r < 0.25:
        drop = 'not_a_level'
    elif r < 0.4:
        flatten = True
    elif r < 0.45 and droppable:
        # both at once is a legal configuration too (the dropped level's marker lists still count for the union)
        flatten = True
        drop = rng.choice(droppable)
    n_iter = rng.choice([1, 2, 3, 5, 9, 15])
    if rng.random() < 0.04:
        # rare large counts: past 2**8 votes per (cell, child), and counts whose vote shares k/n sit exactly on a
        # 4-decimal rounding boundary (n = 32, 160)
        n_iter = rng.choice([32, 160, 256, 300])
    elif rng.random() < 0.004:
        # very rarely thousands of iterations: one vote then weighs less than 1e-3, the scale at which a "small"
        # tie-break term added to a vote share starts to outweigh real votes
        n_iter = rng.choice([2000, 4000])
    cfg = {
        'chunk_size': rng.randint(1, n + 3),
        'n_processors': rng.randint(1, 6),
        'n_runners_up': rng.randint(0, 5),
        'bootstrap_iteration': n_iter,
        'bootstrap_factor': rng.choice([1.0, 0.9, 0.7, 0.5, 0.3, 0.05]),
        'min_markers': rng.choice([0, 1, 2, 3, 5, 10]),
        'rng_seed': rng.randrange(2 ** 31),
        'normalization': 'raw',
        'drop_level': drop,
        'flatten': flatten,
        'cloud_safe': rng.random() < 0.3,
        'transport': rng.choice(['dir', 'dir', 'resultdir']),
        'encoding': rng.choice(['dense', 'csr', 'csc']),
        'max_gb': rng.choice([1.0, 1.0, 1e-7]),
    }
    # per-level bootstrap factors (the CLI's bootstrap_factor_lookup) in a third of the runs
    if rng.random() < 0.33:
        cfg['factor_lookup'] = {lv: rng.choice([1.0, 0.9, 0.7, 0.5, 0.3]) for lv in (['None'] + list(tax.hierarchy[:-1]))}
    if getattr(W, 'q_genes_file', None):
        cfg['map_to_ensembl'] = True
    cfg.update(force)
    if cfg.get('factor_lookup') and 'bootstrap_factor' in force:
        cfg['factor_lookup'] = None
    return cfg


def factor_for(mcfg, parent_level):
    lk = mcfg.get('factor_lookup')
    if lk:
        return lk[str(parent_level)]
    return mcfg['bootstrap_factor']


def setup_mapping_inputs(sb, W, mcfg, query=None, stats_kw=None, markers=None, q_genes=None,
                         q_ids=None, tag=''):
    """write stats, markers and query for a mapping run; returns dict of paths"""
    stats = sb.p('in', 'stats%s.h5' % tag)
    mk = sb.p('in', 'markers%s.json' % tag)
    qp = sb.p('in', 'query%s.h5ad' % tag)
    W.write_stats_file(stats, **(stats_kw or {}))
    W.write_markers(mk, lookup=markers)
    X = W.q_X if query is None else query
    norm = mcfg.get('normalization', 'raw')
    dtype = mcfg.get('dtype', 'float64')
    names = q_genes or W.q_genes
    if q_genes is None and mcfg.get('map_to_ensembl') and getattr(W, 'q_genes_file', None):
        names = W.q_genes_file      # versioned Ensembl ids in the file; W.q_genes is what they map to
    world.write_h5ad(qp, X, q_ids or W.q_ids, names,
                     encoding=mcfg.get('encoding', 'csr'), dtype=dtype)
    return {'stats': stats, 'markers': mk, 'query': qp}


def mapping_driver_cfg(sb, paths, mcfg, tag='out', out_sub=None):
    out_dir = sb.p('out') if out_sub is None else sb.p('out', out_sub)
    os.makedirs(out_dir, exist_ok=True)
    tmp_dir = sb.p('scratch')
    kw = dict(chunk_size=mcfg['chunk_size'], n_processors=mcfg['n_processors'],
              n_runners_up=mcfg['n_runners_up'], bootstrap_iteration=mcfg['bootstrap_iteration'],
              bootstrap_factor=mcfg['bootstrap_factor'], min_markers=mcfg['min_markers'],
              bootstrap_factor_lookup=([[k, v] for k, v in mcfg['factor_lookup'].items()]
                                       if mcfg.get('factor_lookup') else None),
              rng_seed=mcfg['rng_seed'], normalization=mcfg.get('normalization', 'raw'),
              drop_level=mcfg.get('drop_level'), flatten=mcfg.get('flatten', False),
              cloud_safe=mcfg.get('cloud_safe', False), max_gb=mcfg.get('max_gb', 1.0),
              map_to_ensembl=bool(mcfg.get('map_to_ensembl', False)))
    if mcfg.get('transport') == 'resultdir':
        # tmp_dir None: result buffers go to extended_result_dir
        cfg = drivers.mapping_config(paths['query'], paths['stats'], paths['markers'], out_dir,
                                     None, tag=tag, **kw)
        rd = os.path.join(out_dir, tag + '_resultdir')
        os.makedirs(rd, exist_ok=True)
        cfg['extended_result_dir'] = rd
    else:
        cfg = drivers.mapping_config(paths['query'], paths['stats'], paths['markers'], out_dir,
                                     tmp_dir, tag=tag, **kw)
    return cfg


def effective_chunk(n_rows, chunk_size, n_proc):
    return min(max(1, int(np.ceil(n_rows / n_proc))), chunk_size)


def load_json(path):
    with open(path, 'rb') as f:
        return json.load(f)


def sched_stats(res, scheds):
    """accumulate scheduler-level evidence into a result dict"""
    res.setdefault('interleavings', [])
    res.setdefault('probes', {})
    pr = res['probes']
    for s in scheds:
        res['interleavings'].append(harness.interleaving_hash([s]))
        if s.max_inflight >= 2:
            pr['calls_with_2plus_inflight'] = pr.get('calls_with_2plus_inflight', 0) + 1
        if s.pause_count:
            pr['preemptions'] = pr.get('preemptions', 0) + s.pause_count
        if s.completion != sorted(s.completion):
            pr['out_of_order_completion'] = pr.get('out_of_order_completion', 0) + 1
        if s.visible_order != s.completion:
            pr['visibility_order_differs_from_completion'] = \
                pr.get('visibility_order_differs_from_completion', 0) + 1
        if len(s.procs) > 0:
            pr['workers_run'] = pr.get('workers_run', 0) + len(s.procs)


def shrink_numbers(d, keys, lows=None):
    """yield copies of dict d with one numeric key reduced"""
    lows = lows or {}
    for k in keys:
        v = d.get(k)
        if isinstance(v, bool) or not isinstance(v, (int, float)):
            continue
        lo = lows.get(k, 1)
        if v > lo:
            for nv in sorted(set([lo, (v + lo) // 2 if isinstance(v, int) else lo, v - 1])):
                if lo <= nv < v:
                    c = dict(d)
                    c[k] = nv
                    yield c
