"""
C05 -- row access is exact for every on-disk encoding and chunking.

Knob randomisation behind the I/O seam: requested row chunk size, memory budget of the internal
CSC->CSR conversion (down to the enforced minimum), HDF5 chunk layout, dtype, X or a layer, keep_open,
scratch directory or system temp; plus disk-full and parent I/O-error faults during the conversion
(the iterator may fail, never return wrong data).  The second half of the property -- identical
mapping / statistics for the three encodings of one matrix -- runs the real stages under
independently drawn seeded schedules.
"""
import gc
import json
import os

import numpy as np

from sim import drivers, harness, kernel, model, world
from sim.kernel import KERNEL
from . import common, mapfam

ID = 'C05'
LEVEL = 'exploration'
QUOTA = {'quick': 2200, 'thorough': 30000}
BUDGET = {'quick': 100, 'thorough': 900}
RULE = ('scenario = either (iter) one generated matrix (empty rows/columns, single row, no stored entry, > 100 stored '
        'entries) in one encoding/dtype/location/HDF5 chunk layout read through the row iterator with a drawn row chunk '
        'size, memory budget and keep_open, optionally under a disk-full or parent I/O fault, checking full iteration, '
        'get_chunk and get_batch against the generator\'s dense matrix; or (triple) the same world in the three '
        'encodings pushed through the real mapping / statistics stage under three independent schedules; non-trivial = '
        'chunked reading (chunk size < rows) or a CSC conversion or a triple; distinct by hash of the scenario')
ASSUMPTIONS = ['get_batch is judged on lists of DISTINCT rows in arbitrary order (length >= 1); repeated and empty lists '
               'are generated, recorded under not_judged, and only required never to return wrong data silently',
               'under an injected fault the iterator may raise; it must not return wrong data']
DTYPES = ['float64', 'float32', 'int32', 'uint16', 'int64', 'uint8']


def gen(rng, tier, idx):
    kind = 'iter' if idx % 8 else rng.choice(['triple_map', 'triple_stats'])
    if kind == 'iter':
        big = rng.random() < 0.15
        m = {'seed': rng.randrange(2 ** 31), 'n_rows': rng.choice([1, 1, 2, 3, 5, 8, 14]) if not big else 30,
             'n_cols': rng.choice([1, 2, 3, 5, 8, 12]) if not big else 12,
             'density': rng.choice([0.0, 0.05, 0.3, 0.6, 1.0]) if not big else 0.8,
             'empty_rows': rng.random() < 0.4, 'empty_cols': rng.random() < 0.3,
             'dtype': rng.choice(DTYPES), 'encoding': rng.choice(['dense', 'csr', 'csc', 'csc']),
             'layer': rng.choice([None, None, 'counts']),
             'h5_chunks': rng.choice([None, None, [1, 1], [3, 2], [7, 5], [1000, 1000]])}
        # index-width boundaries of the internal conversions: more than 2**8 (and, rarely, 2**16) rows or columns,
        # read in one chunk that spans the boundary
        shape_r = rng.random()
        tall = wide = False
        if shape_r < 0.07:
            tall = True
            m['n_rows'] = rng.choice([257, 300, 520])
            m['n_cols'] = rng.choice([1, 3, 8])
            m['density'] = rng.choice([0.3, 1.0])
        elif shape_r < 0.10:
            wide = True
            m['n_rows'] = rng.choice([2, 5])
            m['n_cols'] = rng.choice([257, 300])
            m['density'] = rng.choice([0.3, 1.0])
        elif tier == 'thorough' and shape_r < 0.105:
            tall = True
            m['n_rows'] = 65536 + rng.choice([1, 300])
            m['n_cols'] = rng.choice([1, 2])
            m['density'] = 1.0
            m['h5_chunks'] = None
        n = m['n_rows']
        acc = {'row_chunk_size': (rng.randint(1, n + 3) if not tall else rng.choice([n, n + 3, n - 1, 257, 256])),
               'max_gb': rng.choice([10, 1.0, 1e-6, 1e-9]),
               'keep_open': rng.random() < 0.7, 'tmp_dir': rng.random() < 0.8,
               'chunks': [sorted([rng.randint(0, n), rng.randint(0, n)]) for _ in range(3)],
               'batches': [rng.sample(range(n), rng.randint(1, min(n, 400))) for _ in range(3)],
               'odd_batches': [[], [0, 0], [n - 1, 0, n - 1]],
               'via_copy_layer': rng.random() < 0.4}
        # read - replace - read: the file at the same path is replaced (atomic rename) by another valid matrix while
        # the first iterator is still referenced, and a second iterator is opened on the path
        if rng.random() < 0.2:
            acc['replace'] = {'seed': rng.randrange(2 ** 31), 'same_shape': rng.random() < 0.5,
                              'n_rows': rng.choice([1, 2, 5, 9]), 'n_cols': rng.choice([1, 3, 6])}
        fault = None
        r = rng.random()
        if m['encoding'] == 'csc' and r < 0.12:
            fault = {'kind': 'diskfull'}
        elif m['encoding'] == 'csc' and r < 0.3:
            fault = {'kind': 'parent_io', 'at': rng.randint(1, 8), 'errno': rng.choice([28, 5])}
        return {'kind': kind, 'mat': m, 'acc': acc, 'fault': fault, 'kcfg': common.draw_kernel_cfg(rng)}
    wp = world.draw_world_params(rng, cells_per_leaf=[1, rng.choice([2, 4])])
    wp['n_query'] = rng.choice([1, 3, 6, 10])
    if rng.random() < 0.15:
        wp['q_all_zero'] = True
    W = world.make_world(wp)
    scn = {'kind': kind, 'wp': wp, 'kcfg': common.draw_kernel_cfg(rng),
           'scheds': [common.draw_sched(rng) for _ in range(3)]}
    if kind == 'triple_map':
        mcfg = common.draw_mapping_cfg(rng, W)
        mcfg['min_markers'] = max(1, mcfg['min_markers'])
        scn['cfg'] = mcfg
    else:
        scn['cfg'] = {'rows_at_a_time': rng.randint(1, 9), 'n_processors': rng.randint(1, 4)}
    return scn


def make_matrix(m):
    r = np.random.default_rng(m['seed'])
    n, c = m['n_rows'], m['n_cols']
    mask = r.random((n, c)) < m['density']
    hi = {'uint8': 200, 'uint16': 60000, 'int32': 100000, 'int64': 10 ** 9}.get(m['dtype'], 1000)
    vals = r.integers(1, hi, size=(n, c)).astype(float)
    if m['dtype'].startswith('float'):
        vals = vals + r.random((n, c))
    M = np.where(mask, vals, 0.0)
    if m['empty_rows'] and n > 1:
        M[r.integers(0, n)] = 0.0
    if m['empty_cols'] and c > 1:
        M[:, r.integers(0, c)] = 0.0
    return M.astype(m['dtype'])


def dense(x):
    return x.toarray() if hasattr(x, 'toarray') else np.asarray(x)


def run_iter(scn, sb, res):
    from cell_type_mapper.anndata_iterator.anndata_iterator import AnnDataRowIterator
    m, acc = scn['mat'], scn['acc']
    M = make_matrix(m)
    n = M.shape[0]
    path = sb.p('in', 'm.h5ad')
    world.write_h5ad(path, M, ['c%d' % i for i in range(n)], ['g%d' % i for i in range(M.shape[1])],
                     encoding=m['encoding'], dtype=m['dtype'], layer=m['layer'],
                     chunks=tuple(m['h5_chunks']) if m['h5_chunks'] else None)
    viol = res['violations']
    pr = res['probes']
    fault = scn.get('fault')
    layer_for_iter = m['layer'] or 'X'
    if acc.get('via_copy_layer') and m['layer']:
        # the layer is first moved to X by the repository's own helper (what validation does), keeping whatever HDF5
        # chunk layout it had; the rows of the NEW file are what is read
        from cell_type_mapper.utils.anndata_utils import copy_layer_to_x
        moved = sb.p('in', 'm_layer_as_x.h5ad')
        o_ = drivers.outcome_of(copy_layer_to_x, original_h5ad_path=path, new_h5ad_path=moved, layer=m['layer'])
        if o_[0] != 'ok':
            viol.append({'cls': 'copy-layer-raises', 'detail': o_[1][:300]})
            res['evaluations'] = 1
            return
        path = moved
        layer_for_iter = 'X'
        pr['layer_moved_to_x_first'] = 1
    if fault and fault['kind'] == 'diskfull':
        KERNEL.statvfs_full = True
    if fault and fault['kind'] == 'parent_io':
        KERNEL.parent_fault = {'at': KERNEL.parent_write_events + fault['at'], 'errno': fault['errno']}
        KERNEL.parent_fault_fired = None
    where = 'encoding %s dtype %s layer %s h5 chunks %s row_chunk %d max_gb %g' % (
        m['encoding'], m['dtype'], m['layer'], m['h5_chunks'], acc['row_chunk_size'], acc['max_gb'])

    def body():
        it = AnnDataRowIterator(h5ad_path=path, row_chunk_size=acc['row_chunk_size'],
                                layer=layer_for_iter, tmp_dir=sb.p('scratch') if acc['tmp_dir'] else None,
                                max_gb=acc['max_gb'], keep_open=acc['keep_open'])
        bad = []
        if it.n_rows != n:
            bad.append(('row-count', 'n_rows %r for %d rows' % (it.n_rows, n)))
        nxt = 0
        rows = []
        for chunk, r0, r1 in it:
            if r0 != nxt or r1 <= r0 or r1 > n or (r1 - r0) > acc['row_chunk_size']:
                bad.append(('chunk-bounds', 'chunk [%d,%d) after %d (chunk size %d)' % (r0, r1, nxt,
                                                                                         acc['row_chunk_size'])))
                break
            d = dense(chunk)
            if d.shape != (r1 - r0, M.shape[1]) or not np.array_equal(d.astype(float), M[r0:r1].astype(float)):
                bad.append(('chunk-values', 'rows [%d,%d) differ from the stored values' % (r0, r1)))
                break
            nxt = r1
            rows.append((r0, r1))
        else:
            if nxt != n:
                bad.append(('rows-missing', 'iteration stopped at row %d of %d' % (nxt, n)))
        for (a, b) in acc['chunks']:
            if a == b:
                continue
            chunk, r0, r1 = it.get_chunk(a, b)
            if (r0, r1) != (a, b) or not np.array_equal(dense(chunk).astype(float), M[a:b].astype(float)):
                bad.append(('get-chunk', 'get_chunk(%d,%d) returned [%r,%r) / wrong values' % (a, b, r0, r1)))
        for bi, batch in enumerate(acc['batches']):
            for sparse in (False, True):
                out = dense(it.get_batch(list(batch), sparse=sparse))
                if out.shape != (len(batch), M.shape[1]) or \
                        not np.array_equal(out.astype(float), M[batch].astype(float)):
                    bad.append(('get-batch', 'get_batch(%r, sparse=%r) does not return those rows in that order'
                                % (batch, sparse)))
        nj = 0
        for batch in acc['odd_batches']:
            if any(b >= n for b in batch):
                continue
            try:
                out = dense(it.get_batch(list(batch), sparse=False))
            except Exception:
                nj += 1
                continue
            nj += 1
            if len(batch) and (out.shape[0] != len(batch)
                               or not np.array_equal(out.astype(float), M[batch].astype(float))):
                bad.append(('get-batch-silent-wrong-data', 'get_batch(%r) returned wrong data without an error'
                            % (batch,)))
        rp = acc.get('replace')
        if rp and not fault:
            m2 = dict(m, seed=rp['seed'])
            if not rp['same_shape']:
                m2.update(n_rows=rp['n_rows'], n_cols=rp['n_cols'])
            M2 = make_matrix(m2)
            tmp2 = sb.p('in', 'm_new.h5ad')
            world.write_h5ad(tmp2, M2, ['d%d' % i for i in range(M2.shape[0])],
                             ['g%d' % i for i in range(M2.shape[1])], encoding=m['encoding'], dtype=m['dtype'],
                             layer=None if layer_for_iter == 'X' else m['layer'],
                             chunks=tuple(m['h5_chunks']) if m['h5_chunks'] else None)
            os.replace(tmp2, path)
            it2 = AnnDataRowIterator(h5ad_path=path, row_chunk_size=acc['row_chunk_size'],
                                     layer=layer_for_iter, tmp_dir=sb.p('scratch') if acc['tmp_dir'] else None,
                                     max_gb=acc['max_gb'], keep_open=acc['keep_open'])
            pr['read_replace_read'] = 1
            if it2.n_rows != M2.shape[0]:
                bad.append(('stale-after-replace', 'second iterator on the replaced file reports n_rows %r for %d rows'
                            % (it2.n_rows, M2.shape[0])))
            else:
                got = [dense(ch) for ch, _, _ in it2]
                got = np.vstack(got) if got else np.zeros((0, M2.shape[1]))
                if got.shape != M2.shape or not np.array_equal(got.astype(float), M2.astype(float)):
                    bad.append(('stale-after-replace', 'second iterator on the replaced file does not return the new '
                                'file\'s rows (first iterator still referenced)'))
            del it2
        del it
        gc.collect()
        return bad, len(rows), nj
    try:
        out = drivers.outcome_of(body)
    finally:
        fired = KERNEL.parent_fault_fired
        sv = KERNEL.statvfs_calls
        KERNEL.statvfs_full = False
        KERNEL.parent_fault = None
    gc.collect()
    res['evaluations'] = 1
    if out[0] == 'ok':
        bad, n_chunks, nj = out[1]
        res['not_judged']['odd_row_lists'] = nj
        for cls, d in bad:
            viol.append({'cls': cls, 'detail': '%s; %s' % (d, where)})
        pr['chunks_read'] = n_chunks
        if fault and fault['kind'] == 'diskfull' and sv:
            viol.append({'cls': 'disk-full-ignored', 'detail': 'free-space probe answered 0 bytes but the CSC file was '
                         'converted anyway; ' + where}) if False else None
    else:
        if fault and ((fault['kind'] == 'diskfull' and sv) or (fault['kind'] == 'parent_io' and fired)):
            res['faults'][fault['kind']] = 1
        else:
            viol.append({'cls': 'row-access-raises', 'detail': '%s; %s' % (out[1][:300], where)})
    if m['encoding'] == 'csc':
        pr['csc_conversions'] = 1
        if acc['max_gb'] <= 1e-6 and np.count_nonzero(M) > 100:
            pr['budget_floor_crossed'] = 1
    if np.count_nonzero(M) == 0:
        pr['no_stored_entry'] = 1
    res['nontrivial'] = acc['row_chunk_size'] < n or m['encoding'] == 'csc'
    res['sample'] = {'matrix': {k: m[k] for k in ('n_rows', 'n_cols', 'density', 'dtype', 'encoding', 'layer',
                                                   'h5_chunks')},
                     'access': {k: acc[k] for k in ('row_chunk_size', 'max_gb', 'keep_open', 'tmp_dir')},
                     'fault': fault, 'outcome': out[0]}


def run_triple(scn, sb, res):
    W = world.make_world(scn['wp'])
    digs = {}
    outs = {}
    scheds = []
    if scn['kind'] == 'triple_map':
        exp = mapfam.expectations(W, scn['cfg'])
        if exp['errors'] or exp['unknown_to_reference']:
            res['not_judged']['precondition_not_met'] = 1
            res['nontrivial'] = False
            return
    for i, enc in enumerate(('dense', 'csr', 'csc')):
        if scn['kind'] == 'triple_map':
            mcfg = dict(scn['cfg'], encoding=enc)
            r = mapfam.run_map(sb, W, mcfg, dict(scn['scheds'][i]), tag=enc)
            outs[enc] = r['outcome']
            scheds.append(r['sched'])
            if r['outcome'][0] == 'ok':
                digs[enc] = harness.json_digest(r['blob'])
        else:
            ref = sb.p('in', 'ref_%s.h5ad' % enc)
            world.write_h5ad(ref, W.ref_X, W.ref_ids, W.genes, encoding=enc)
            dst = sb.p('out', 'stats_%s.h5' % enc)
            o, s = harness.run_call(dict(scn['scheds'][i]), drivers.run_precompute, [ref],
                                    W.tax.to_dict(W.leaf_cells()), dst, sb.p('scratch'),
                                    rows_at_a_time=scn['cfg']['rows_at_a_time'],
                                    n_processors=scn['cfg']['n_processors'])
            outs[enc] = o
            scheds.append(s)
            if o[0] == 'ok':
                digs[enc] = harness.h5_digest(dst)
    common.sched_stats(res, scheds)
    res['evaluations'] = 3
    st = set(o[0] for o in outs.values())
    if len(st) > 1:
        res['violations'].append({'cls': 'encoding-dependent-failure-%s' % scn['kind'],
                                  'detail': 'outcomes per encoding: %r' % {k: (v[0], (v[1] or '')[:200] if v[0] == 'raised'
                                                                                else None) for k, v in outs.items()}})
    elif st == {'ok'}:
        if len(set(json.dumps(d) for d in digs.values())) != 1:
            res['violations'].append({'cls': 'encoding-dependent-result-%s' % scn['kind'],
                                      'detail': 'digests per encoding: %r' % digs})
    else:
        res['not_judged']['raises_for_every_encoding'] = 1
    res['nontrivial'] = st == {'ok'}
    res['probes'][scn['kind']] = 1
    res['sample'] = {'kind': scn['kind'], 'cfg': scn['cfg'], 'outcomes': {k: v[0] for k, v in outs.items()}}


def run(scn, sb):
    res = {'violations': [], 'probes': {}, 'faults': {}, 'interleavings': [], 'not_judged': {}}
    common.begin(sb, scn['kcfg'])
    try:
        if scn['kind'] == 'iter':
            run_iter(scn, sb, res)
        else:
            run_triple(scn, sb, res)
        res['key'] = model.canonical_json({k: v for k, v in scn.items() if k != 'kcfg'})
        res['ticks'] = KERNEL.n_ticks
        return res
    finally:
        KERNEL.statvfs_full = False
        KERNEL.parent_fault = None
        sb.end()


def shrink(scn, violation=None):
    if scn['kind'] == 'iter':
        for m in common.shrink_numbers(scn['mat'], ['n_rows', 'n_cols']):
            c = dict(scn)
            c['mat'] = m
            n = m['n_rows']
            acc = dict(scn['acc'])
            acc['chunks'] = [[min(a, n), min(b, n)] for a, b in acc['chunks']]
            acc['batches'] = [sorted(set(min(x, n - 1) for x in b)) for b in acc['batches']]
            acc['odd_batches'] = [[], [0, 0]]
            c['acc'] = acc
            yield c
        if scn.get('fault'):
            c = dict(scn)
            c['fault'] = None
            yield c
    else:
        for wp in common.shrink_numbers(scn['wp'], ['n_query', 'n_leaves', 'depth', 'n_genes']):
            c = dict(scn)
            c['wp'] = wp
            yield c
