"""
C04 -- results depend only on inputs and seed, never on scheduling.

Decided by seeded search over schedules: the same scenario (world, configuration, seed)
is executed under several independently drawn kernels (schedule policy and decisions,
pre-emption points, temp-name stream, directory-listing order, clock) and -- across
shards -- under two different PYTHONHASHSEEDs.  One canonical digest per scenario.
"""
import itertools
import os
import shutil
import json
import math
import os
import random

import numpy as np

from sim import drivers, harness, kernel, model, world
from sim.kernel import KERNEL
from . import common, stages
from .stages import prepare, execute

ID = 'C04'
LEVEL = 'exploration'
QUOTA = {'quick': 220, 'thorough': 4000}
BUDGET = {'quick': 120, 'thorough': 900}
N_KERNELS = {'quick': 5, 'thorough': 12}
RULE = ('scenario = (stage, generated world, stage configuration incl. seed) executed under N '
        'independently drawn kernels (schedule policy+decisions, pre-emption points, temp-name seed, '
        'listing order, clock) and, across shards, under two PYTHONHASHSEEDs; non-trivial = at least two '
        'of the kernels produced different scheduler event sequences with >=2 workers in flight; '
        'distinct by hash of (stage, world parameters, configuration)')
ASSUMPTIONS = [
    'interleavings finer than one I/O seam event inside a worker are equivalent to a simulated one as '
    'long as worker write sets are disjoint (the write-set monitor checks this premise on every call)',
    'metadata/log/config entries (timestamps, durations, paths) are volatile by design and excluded from digests',
    'JSON outputs are compared parsed (key order of the query-marker JSON follows completion order; not a defect)',
]


def shard_indices(shard, nshards, quota):
    half = max(1, nshards // 2)
    return range(shard % half, quota, half)


# ---------------------------------------------------------------------------
# generation
# ---------------------------------------------------------------------------

def gen(rng, tier, idx):
    stage = stages.STAGES[idx % len(stages.STAGES)]
    scn = stages.gen_stage(rng, stage)
    n_k = N_KERNELS[tier]
    ks = []
    perms4 = list(itertools.permutations(range(4)))
    for i in range(n_k):
        kk = {'sched': common.draw_sched(rng), 'kcfg': common.draw_kernel_cfg(rng)}
        if tier == 'thorough' and i % 3 == 0:
            # sweep the n! completion orders systematically for pools of up to 4 workers
            pm = list(perms4[(idx * n_k + i) % len(perms4)]) + [4, 5]
            kk['sched'] = {'policy': 'perm', 'seed': kk['sched']['seed'], 'perm': pm}
        ks.append(kk)
    # mapping: vary the worker count among those that induce the same chunks
    if stage in ('mapping', 'mapping_mgr', 'otf'):
        n = scn['wp']['n_query']
        base = common.effective_chunk(n, scn['cfg']['chunk_size'], scn['cfg']['n_processors'])
        same = [p for p in range(1, 7) if common.effective_chunk(n, scn['cfg']['chunk_size'], p) == base]
        for kk in ks:
            kk['n_processors'] = rng.choice(same) if rng.random() < 0.5 else scn['cfg']['n_processors']
    # transposition: the output must not depend on the number of workers at all
    if stage == 'transpose':
        for kk in ks:
            if rng.random() < 0.6:
                kk['n_processors'] = rng.randint(1, 6)
    scn['kernels'] = ks
    # history twin: a decoy world is first pushed through the stage at the SAME input paths, then the real inputs are
    # written there; kernel 0 reads an identical copy of the real inputs under paths the process has never seen.
    # Results may depend on the content of the input files only -- not on what was read from those paths before.
    scn['history_twin'] = rng.random() < 0.25
    return scn


# ---------------------------------------------------------------------------
# stage set-up and execution
# ---------------------------------------------------------------------------

def run(scn, sb):
    res = {'violations': [], 'probes': {}, 'faults': {}, 'interleavings': [], 'not_judged': {}}
    viol = res['violations']
    outcomes = []
    first = True
    ctx = None
    n_mw = 0
    for k_i, kk in enumerate(scn['kernels']):
        common.begin(sb, kk['kcfg'])
        try:
            if first:
                if scn.get('history_twin'):
                    decoy = dict(scn)
                    if 'wp' in scn:
                        decoy['wp'] = dict(scn['wp'], seed=scn['wp']['seed'] + 1)
                    else:
                        decoy['mat'] = dict(scn['mat'], seed=scn['mat']['seed'] + 1)
                    try:
                        dctx = prepare(decoy, sb)
                        execute(decoy, sb, dctx, 90, {'sched': {'policy': 'fifo', 'seed': 0}})
                    except Exception:
                        pass
                    shutil.rmtree(sb.p('out', 'r90'), ignore_errors=True)
                    shutil.rmtree(sb.p('in'), ignore_errors=True)
                    os.makedirs(sb.p('in'))
                    for leftover in os.listdir(sb.p('scratch')):
                        shutil.rmtree(os.path.join(sb.p('scratch'), leftover), ignore_errors=True)
                    res['probes']['history_twin'] = 1
                ctx = prepare(scn, sb)
                if scn.get('history_twin'):
                    real_in = sb.dirs['in']
                    sb.dirs['in'] = os.path.join(sb.base, 'in_twin')
                    os.makedirs(sb.dirs['in'], exist_ok=True)
                    try:
                        ctx_twin = prepare(scn, sb)
                    finally:
                        sb.dirs['in'] = real_in
                first = False
            use_ctx = ctx_twin if (scn.get('history_twin') and k_i == 0) else ctx
            out, dig, scheds = execute(scn, sb, use_ctx, k_i, kk)
            common.sched_stats(res, scheds)
            for s in scheds:
                for c in kernel.write_set_conflicts(s, sb.trace):
                    viol.append({'cls': 'write-set-conflict',
                                 'detail': 'stage %s kernel %d: %r' % (scn['stage'], k_i, c)})
            outcomes.append({'k': k_i, 'status': out[0], 'msg': out[1] if out[0] == 'raised' else None,
                             'digest': dig,
                             'inter': harness.interleaving_hash(scheds),
                             'multi': any(s.max_inflight >= 2 for s in scheds),
                             'completion': [list(s.completion) for s in scheds
                                            if len(s.procs) > 1 and len(s.completion) == len(s.procs)][:1]})
        finally:
            res['ticks'] = res.get('ticks', 0) + KERNEL.n_ticks
            sb.end()
    stats = set(o['status'] for o in outcomes)
    if stats == {'raised'}:
        msgs = set((o['msg'] or '').split(':')[0] for o in outcomes)
        res['not_judged']['stage_raises_under_every_kernel'] = 1
        res['nontrivial'] = False
        res['raised'] = sorted(msgs)
        res['sample'] = {'stage': scn['stage'], 'raised_everywhere': outcomes[0]['msg'][:200]}
    elif len(stats) > 1:
        bad = [o for o in outcomes if o['status'] == 'raised'][0]
        viol.append({'cls': 'schedule-dependent-failure',
                     'detail': 'stage %s raises under kernel %d (%s) but not under others'
                               % (scn['stage'], bad['k'], bad['msg'][:300])})
    else:
        d0 = outcomes[0]['digest']
        for o in outcomes:
            if isinstance(o['digest'], str) and o['digest'].startswith('outputs-unreadable'):
                viol.append({'cls': 'success-without-outputs',
                             'detail': 'stage %s returned normally under kernel %d but %s'
                                       % (scn['stage'], o['k'], o['digest'])})
                break
        for o in outcomes[1:]:
            if o['digest'] != d0:
                viol.append({'cls': 'schedule-dependent-result',
                             'detail': 'stage %s: digest under kernel %d %r differs from kernel 0 %r '
                                       '(completion orders %r vs %r)'
                                       % (scn['stage'], o['k'], o['digest'], d0,
                                          o['completion'], outcomes[0]['completion'])})
                break
    if scn.get('history_twin'):
        for v in viol:
            if v['cls'] in ('schedule-dependent-failure', 'schedule-dependent-result'):
                v['detail'] += (' [history twin: kernel 0 read an identical copy of the inputs under paths new to the '
                                'process, the other kernels read the usual paths after a decoy world had gone through '
                                'the stage there -- a difference between kernel 0 and the rest means the result depends '
                                'on what was read from those paths before, not on the schedule]')
    inter = set(o['inter'] for o in outcomes if o['multi'])
    res['nontrivial'] = len(inter) >= 2 and 'raised' not in stats
    res['key'] = model.canonical_json([scn['stage'], scn.get('wp') or scn.get('mat'), scn['cfg']])
    res['evaluations'] = len(outcomes)
    res['digests'] = {'final': outcomes[0]['digest'], 'status': sorted(stats)}
    res['completions'] = [o['completion'][0] for o in outcomes if o['completion']]
    res['stage'] = scn['stage']
    if 'sample' not in res:
        res['sample'] = {'stage': scn['stage'], 'cfg': scn['cfg'],
                         'kernels': [kk['sched']['policy'] for kk in scn['kernels']],
                         'completion_orders': res['completions'][:4], 'digest': outcomes[0]['digest']}
    return res


# ---------------------------------------------------------------------------
# cross-shard oracle: same scenario, different PYTHONHASHSEED
# ---------------------------------------------------------------------------

def cross_check(records):
    by = {}
    out = []
    for r in records:
        if 'res' in r and r['res'].get('digests'):
            by.setdefault(r['idx'], []).append(r)
    for idx, rs in by.items():
        if len(rs) < 2:
            continue
        a = rs[0]
        for b in rs[1:]:
            if a['res']['digests'] != b['res']['digests']:
                out.append((a, {'cls': 'hash-seed-dependent-result',
                                'detail': 'stage %s: digests %r (PYTHONHASHSEED=%s) vs %r (PYTHONHASHSEED=%s)'
                                          % (a['res'].get('stage'), a['res']['digests'], a['hashseed'],
                                             b['res']['digests'], b['hashseed']),
                                'hashseeds': [a['hashseed'], b['hashseed']]}))
    return out


def replay(rp, base):
    """replay; hash-seed violations need the two interpreters again"""
    from sim import orchestrate
    if rp['violation']['cls'] != 'hash-seed-dependent-result':
        return orchestrate.run_one(__import__('props.c04', fromlist=['x']), rp['scenario'], base)
    import subprocess
    import sys
    digs = []
    for hs in rp['violation']['hashseeds']:
        tmp = base + '.scn.json'
        outp = base + '.res%s.json' % hs
        with open(tmp, 'w') as f:
            json.dump(rp['scenario'], f)
        env = dict(os.environ, PYTHONHASHSEED=str(hs), VERIF_SCRATCH=base + '.hs%s' % hs)
        subprocess.call([sys.executable, os.path.join(orchestrate.VERIF, 'check.py'), 'C04',
                         '--run-scn', tmp, outp], env=env)
        with open(outp) as f:
            digs.append(json.load(f).get('digests'))
        os.unlink(outp)
    if digs[0] != digs[1]:
        return {'violations': [{'cls': 'hash-seed-dependent-result', 'detail': repr(digs)}]}
    return {'violations': []}


def extra_evidence(records):
    """reach over the n! completion orders for stage calls with n <= 4 workers"""
    seen = {}
    hs_pairs = 0
    by_idx = {}
    stages = {}
    for r in records:
        res = r.get('res') or {}
        by_idx.setdefault(r['idx'], set()).add(r.get('hashseed'))
        stages[res.get('stage')] = stages.get(res.get('stage'), 0) + 1
        for c in res.get('completions', []):
            n = len(c)
            if 2 <= n <= 4:
                seen.setdefault(n, set()).add(tuple(c))
    hs_pairs = sum(1 for v in by_idx.values() if len(v) >= 2)
    return {'completion_order_reach': {str(n): '%d of %d' % (len(v), math.factorial(n))
                                       for n, v in sorted(seen.items())},
            'scenarios_run_under_two_hash_seeds': hs_pairs,
            'scenario_executions_by_stage': stages}


def shrink(scn, violation=None):
    ks = scn['kernels']
    if len(ks) > 2:
        for i in range(1, len(ks)):
            c = dict(scn)
            c['kernels'] = [ks[0], ks[i]]
            yield c
    for kk_i in range(len(ks)):
        if ks[kk_i]['sched'].get('policy') != 'fifo':
            c = dict(scn)
            nk = [dict(k) for k in ks]
            nk[kk_i] = dict(nk[kk_i], sched={'policy': 'fifo', 'seed': 0})
            c['kernels'] = nk
            yield c
    if 'wp' in scn:
        for wp in common.shrink_numbers(scn['wp'], ['n_query', 'n_leaves', 'depth', 'n_genes']):
            c = dict(scn)
            c['wp'] = wp
            yield c
    for cfg in common.shrink_numbers(scn['cfg'], ['n_processors', 'bootstrap_iteration', 'n_runners_up',
                                                  'n_files']):
        c = dict(scn)
        c['cfg'] = cfg
        yield c
