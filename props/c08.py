"""
C08 -- marker genes are reconciled with the query by name, with ancestor fallback.

Same recorded history as C02 (the gene list every worker saw at every node) plus the marker table
of the output, compared with a reconciliation model written from the property text; error clauses
(root without usable markers, marker unknown to the reference, query sharing no marker) must end
the run with an error and no results.
"""
from sim import world
from . import common, mapfam

ID = 'C08'
LEVEL = 'exploration'
QUOTA = {'quick': 2000, 'thorough': 10000}
BUDGET = {'quick': 100, 'thorough': 900}
RULE = ('scenario = generated world with a synthetic marker table (missing parents, empty lists, duplicates, genes '
        'absent from the query) x minimum-marker setting x flatten/drop_level x seeded schedule; a quarter of the '
        'scenarios plant one of the three error clauses; non-trivial = the fallback to an ancestor or root list was '
        'exercised, a parent was missing from the table, or an error clause was planted; distinct by hash of '
        '(world parameters, configuration, planted error)')
ASSUMPTIONS = ['min_markers >= 1', 'a root with a single child needs no markers: what the output lists for it is not judged']
ORACLE = 'C08'


def gen(rng, tier, idx):
    wp = world.draw_world_params(rng)
    wp['n_query'] = rng.choice([1, 2, 4, 6])
    wp['m_missing'] = rng.choice([0.1, 0.3, 0.5])
    wp['m_empty'] = rng.choice([0.1, 0.3])
    wp['m_small'] = rng.choice([0.3, 0.7, 0.9])
    wp['marker_style'] = 'random'
    wp['q_drop'] = rng.choice([0.15, 0.4, 0.6])
    if rng.random() < 0.12:
        # real Ensembl ids, version suffixes in the query file, map_to_ensembl=True
        wp['gene_style'] = 'ensembl'
    W = world.make_world(wp)
    mcfg = common.draw_mapping_cfg(rng, W)
    mcfg['min_markers'] = rng.choice([1, 2, 3, 5, 10])
    mcfg['bootstrap_iteration'] = rng.choice([1, 2])
    scn = {'wp': wp, 'cfg': mcfg, 'sched': common.draw_sched(rng), 'kcfg': common.draw_kernel_cfg(rng)}
    r = rng.random()
    if r < 0.25:
        markers = {k: list(v) for k, v in W.markers.items()}
        kind = rng.choice(['root_unusable', 'unknown_gene', 'disjoint'])
        if kind == 'root_unusable':
            absent = [g for g in W.genes if g not in set(W.q_genes)]
            markers['None'] = absent[:2]
            if len(W.tax.children(None, None)) < 2:
                kind = 'none'
        elif kind == 'unknown_gene':
            key = rng.choice(sorted(markers))
            markers[key] = list(markers[key]) + ['not_a_reference_gene']
        else:
            scn['q_genes'] = ['renamed_%d' % i for i in range(len(W.q_genes))]
            if len(W.tax.children(None, None)) < 2:
                kind = 'none'
        scn['markers'] = markers
        scn['planted'] = kind
    return scn


def run(scn, sb):
    res = mapfam.single_run(scn, sb, ORACLE)
    pr = res.get('probes', {})
    if pr.get('ancestor_fallback') or pr.get('parent_missing_from_table') or pr.get('error_clause_runs'):
        res['nontrivial'] = True
    return res


def shrink(scn, violation=None):
    return mapfam.shrink_single(scn)
