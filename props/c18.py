"""
C18 -- the stages compose: cluster centroids map back to themselves.

Full pipeline per world, every stage's pool under its own seeded random schedule, chained through
files: reference h5ad -> statistics -> reference markers -> query markers -> mapping of a query made
of each leaf's mean log2(CPM+1) profile (read from the statistics file by the model), declared
normalised, columns permuted.  The bootstrap draws are recorded; the property's own precondition
(no other leaf under the node perfectly correlated on the genes used) is evaluated on them.
"""
import json
import os

import numpy as np

from sim import drivers, harness, kernel, model, world
from sim.kernel import KERNEL
from . import common, mapfam

ID = 'C18'
LEVEL = 'exploration'
QUOTA = {'quick': 600, 'thorough': 6000}
BUDGET = {'quick': 110, 'thorough': 900}
RULE = ('scenario = generated reference with separable clusters pushed through the four real stages (statistics, '
        'reference markers, query markers, mapping), each pool under its own seeded schedule; the query holds every '
        'leaf centroid, declared normalised, columns permuted; an evaluation is one centroid judged; non-trivial = all '
        'four stages ran with >= 2 workers in at least one pool and >= 1 centroid satisfied the precondition; distinct '
        'by hash of (world parameters, configurations)')
ASSUMPTIONS = ['a centroid is judged only if, on every recorded subset at every node of its path, it is non-constant and '
               'no other leaf under the node correlates with it above 1-1e-9 (the property\'s own precondition); others '
               'are skipped and counted',
               'worlds in which the marker stages find no gene for some node with >= 2 children are discarded and counted']


def copy_world_with_genes(W, idx):
    """the same world restricted to a gene panel (columns idx of the reference)"""
    import copy
    W2 = copy.copy(W)
    W2.genes = [W.genes[i] for i in idx]
    W2.ref_X = W.ref_X[:, idx]
    return W2


def gen(rng, tier, idx):
    wp = world.draw_world_params(rng, cells_per_leaf=[2, rng.choice([3, 5])], blocky=False, degenerate=0.0,
                                 n_unlabelled=rng.choice([0, 2]), odd_names=rng.random() < 0.2,
                                 shared_names=rng.random() < 0.25)
    wp['n_leaves'] = rng.choice([2, 3, 4, 5, 6, 8])
    wp['n_genes'] = rng.choice([12, 16, 24, 40])
    u = rng.random()
    if u < 0.04:
        wp['n_genes'] = 300          # gene indices past 2**8 in the marker files
    elif u < 0.07:
        wp['n_leaves'] = 24          # 276 cluster pairs
    return {'wp': wp, 'kcfg': common.draw_kernel_cfg(rng),
            'stats': {'n_files': rng.randint(1, 3), 'encoding': rng.choice(['dense', 'csr', 'csc']),
                      'rows_at_a_time': rng.randint(1, 9), 'n_processors': rng.randint(1, 4)},
            'refm': {'n_processors': rng.randint(1, 4), 'n_valid': rng.choice([5, 10, 30]),
                     'exact_penetrance': rng.random() < 0.2, 'max_gb': rng.choice([1.0, 1e-6])},
            'qm': {'n_processors': rng.randint(1, 4), 'n_per_utility': rng.randint(1, 5)},
            'map': {'chunk_size': rng.randint(1, 5), 'n_processors': rng.randint(1, 4),
                    'bootstrap_factor': rng.choice([1.0, 0.9, 0.7, 0.5, 0.3]),
                    'bootstrap_iteration': rng.choice([1, 3, 7]), 'rng_seed': rng.randrange(2 ** 31),
                    'n_runners_up': rng.randint(0, 3), 'min_markers': rng.choice([1, 3, 10]),
                    'encoding': rng.choice(['dense', 'csr', 'csc']),
                    'drop_level': None, 'flatten': rng.random() < 0.15},
            'scheds': [common.draw_sched(rng) for _ in range(4)], 'perm_seed': rng.randrange(2 ** 31),
            # the pipeline's truncation stage between statistics and markers (a sub-sequence of the levels is kept;
            # when the leaf level goes, its parents become the leaves and the rows of the file are re-built)
            'truncate': rng.random() < 0.3, 'truncate_seed': rng.randrange(2 ** 31),
            # the same composition through the on-the-fly-marker entry point (one run, three pools): its results
            # must equal those of the stages run one by one (then the query is shown to the marker stages as well,
            # as that entry point does)
            'via_otf': rng.random() < 0.3, 'sched_otf': common.draw_sched(rng),
            # two reference datasets with partly different gene panels (same taxonomy): one reference-marker file
            # each, combined in ONE query-marker selection, then mapping against the first dataset
            'two_datasets': rng.random() < 0.2, 'panel_seed': rng.randrange(2 ** 31)}


def run(scn, sb):
    from . import stages
    res = {'violations': [], 'probes': {}, 'faults': {}, 'interleavings': [], 'not_judged': {}, 'evaluations': 0}
    viol = res['violations']
    W = world.make_world(scn['wp'])
    tax = W.tax
    common.begin(sb, scn['kcfg'])
    try:
        sch = [dict(s) for s in scn['scheds']]
        # ---- stage 1: statistics from the reference h5ad files
        two = bool(scn.get('two_datasets')) and len(W.genes) >= 8 and not scn.get('truncate') and not scn.get('via_otf')
        stats2 = None
        if two:
            pr_ = np.random.default_rng(scn['panel_seed'])
            ng = len(W.genes)
            only1 = set(int(x) for x in pr_.permutation(ng)[:max(1, ng // 5)])
            only2 = set(int(x) for x in pr_.permutation(ng)[:max(1, ng // 5)]) - only1
            idx1 = [i for i in range(ng) if i not in only2]       # dataset 1 lacks the genes only dataset 2 has
            idx2 = [i for i in range(ng) if i not in only1]
            W1 = copy_world_with_genes(W, idx1)
            W2 = copy_world_with_genes(W, idx2)
            os.makedirs(sb.p('in', 'ds2'), exist_ok=True)
            ref2 = sb.p('in', 'ds2', 'ref.h5ad')
            # the second dataset has MORE cells for about half of the leaves (their cells twice, under new ids): the
            # selection for parents above those leaves is served by the second dataset's marker file
            lc2 = {lf: list(v) for lf, v in W.leaf_cells().items()}
            rows2, ids2 = [W2.ref_X], list(W2.ref_ids)
            for lf in sorted(lc2):
                if pr_.random() < 0.5:
                    sel = [i for i, lab in enumerate(W.ref_labels) if lab == lf]
                    rows2.append(W2.ref_X[sel])
                    new_ids = ['%s_again' % W.ref_ids[i] for i in sel]
                    ids2 += new_ids
                    lc2[lf] += new_ids
            world.write_h5ad(ref2, np.vstack(rows2), ids2, W2.genes, encoding=scn['stats']['encoding'])
            stats2 = sb.p('out', 'stats_ds2.h5')
            o1b, _ = harness.run_call({'policy': 'fifo', 'seed': 0}, drivers.run_precompute, [ref2],
                                      tax.to_dict(lc2), stats2, sb.p('scratch'), n_processors=2)
            if o1b[0] != 'ok':
                viol.append({'cls': 'statistics-stage-fails', 'detail': 'second dataset: ' + o1b[1][:300]})
                return res
            W = W1
            res['probes']['two_datasets'] = 1
        refs = stages._write_reference(sb, W, scn['stats']['n_files'], scn['stats']['encoding'])
        stats = sb.p('out', 'stats.h5')
        o1, s1 = harness.run_call(sch[0], drivers.run_precompute, refs, tax.to_dict(W.leaf_cells()), stats,
                                  sb.p('scratch'), rows_at_a_time=scn['stats']['rows_at_a_time'],
                                  n_processors=scn['stats']['n_processors'])
        if o1[0] != 'ok':
            viol.append({'cls': 'statistics-stage-fails', 'detail': o1[1][:400]})
            return res
        # ---- "centroid" means the mean log2(CPM+1) profile of the cluster's OWN cells: the profiles in the statistics
        # file (from which the query is built below) are compared with the direct computation from the reference
        # that was written (unlabelled cells excluded), so a statistics stage that is self-consistently wrong cannot
        # carry the composition through (seeded change C18-single-cluster-chunk-keeps-unlabelled)
        import h5py
        with h5py.File(stats, 'r') as f:
            c2r0 = json.loads(f['cluster_to_row'][()].decode())
            cols0 = json.loads(f['col_names'][()].decode())
            ssum0 = f['sum'][()]
            n0 = f['n_cells'][()]
        l2 = model.log2cpm(W.ref_X)
        row_of = {cid: i for i, cid in enumerate(W.ref_ids)}
        gi = [W.genes.index(g) for g in cols0]
        for lf, cells in sorted(W.leaf_cells().items()):
            if lf not in c2r0 or not cells:
                continue
            sel = [row_of[c] for c in cells]
            direct = l2[sel][:, gi].mean(axis=0)
            k = c2r0[lf]
            if int(n0[k]) != len(sel) or not np.allclose(ssum0[k] / max(1, n0[k]), direct, rtol=1e-5, atol=1e-6):
                viol.append({'cls': 'centroid-in-statistics-file-differs-from-direct',
                             'detail': 'leaf %r: n_cells %r in the file, %d cells carry the label; largest profile '
                                       'difference %.3g' % (lf, int(n0[k]), len(sel),
                                                            float(np.abs(ssum0[k] / max(1, n0[k]) - direct).max()))})
                return res
        res['probes']['centroids_checked_against_direct'] = 1
        # ---- optional stage 1b: truncate the statistics file to a sub-sequence of the levels
        if scn.get('truncate') and len(tax.hierarchy) >= 2:
            import copy
            from cell_type_mapper.diff_exp.truncate_precompute import truncate_precomputed_stats_file
            tr = np.random.default_rng(scn['truncate_seed'])
            nlv = len(tax.hierarchy)
            while True:
                keep = [lv for lv in tax.hierarchy if tr.random() < 0.6]
                if 0 < len(keep) < nlv:
                    break
            if len(tax.truncate(keep).leaves) < 2:
                # one cluster left: no pair of clusters exists, the marker stages have nothing to find (the
                # reference-marker stage then fails with an UnboundLocalError -- observed, not judged: no choice
                # exists anywhere in such a taxonomy, so the property says nothing about it)
                res['not_judged']['truncated_to_a_single_leaf'] = 1
                res['nontrivial'] = False
                return res
            stats_t = sb.p('out', 'stats_truncated.h5')
            o1b = drivers.outcome_of(truncate_precomputed_stats_file, input_path=stats, output_path=stats_t,
                                     new_hierarchy=keep)
            if o1b[0] != 'ok':
                viol.append({'cls': 'truncation-stage-rejects-statistics',
                             'detail': 'new hierarchy %r of %r: %s' % (keep, tax.hierarchy, o1b[1][:300])})
                return res
            tax2 = tax.truncate(keep)
            W2 = copy.copy(W)
            W2.tax = tax2
            W2.ref_labels = [None if lab is None else tax.ancestor(tax.leaf_level, lab, tax2.leaf_level)
                             for lab in W.ref_labels]
            res['probes']['truncated'] = 1
            if tax2.leaf_level != tax.leaf_level:
                res['probes']['truncated_leaf_level_dropped'] = 1
            W, tax, stats = W2, tax2, stats_t
        # ---- the centroid query, from the statistics FILE (by its own cluster_to_row / col_names)
        import h5py
        with h5py.File(stats, 'r') as f:
            c2r = json.loads(f['cluster_to_row'][()].decode())
            cols = json.loads(f['col_names'][()].decode())
            ssum = f['sum'][()]
            n = f['n_cells'][()]
        leaves = sorted(tax.leaves)
        cent = np.array([ssum[c2r[lf]] / max(1, n[c2r[lf]]) for lf in leaves])
        r = np.random.default_rng(scn['perm_seed'])
        p = r.permutation(len(cols))
        if scn.get('via_otf') and len(cols) >= 6 and r.random() < 0.7:
            # the query lacks some of the reference genes: every marker stage has to restrict itself to the query
            p = p[:max(4, int(0.75 * len(cols)))]
            res['probes']['centroid_query_lacks_reference_genes'] = 1
        q_genes = [cols[i] for i in p]
        q_ids = ['centroid_of_%d' % i for i in range(len(leaves))]
        qp = sb.p('in', 'centroids.h5ad')
        world.write_h5ad(qp, cent[:, p], q_ids, q_genes, encoding=scn['map']['encoding'])
        via_otf = bool(scn.get('via_otf'))
        # ---- stage 2: reference markers
        os.makedirs(sb.p('out', 'refm'))
        o2, s2 = harness.run_call(sch[1], drivers.run_reference_markers, [stats], sb.p('out', 'refm'),
                                  sb.p('scratch'), n_processors=scn['refm']['n_processors'],
                                  n_valid=scn['refm']['n_valid'], exact_penetrance=scn['refm']['exact_penetrance'],
                                  max_gb=scn['refm']['max_gb'], query_path=qp if via_otf else None)
        if o2[0] != 'ok':
            viol.append({'cls': 'reference-marker-stage-rejects-statistics', 'detail': o2[1][:400]})
            return res
        refm = sb.p('out', 'refm', 'reference_markers.h5')
        refm_list = [refm]
        if stats2 is not None:
            os.makedirs(sb.p('out', 'refm2'))
            o2b, _ = harness.run_call({'policy': 'fifo', 'seed': 0}, drivers.run_reference_markers, [stats2],
                                      sb.p('out', 'refm2'), sb.p('scratch'), n_processors=2,
                                      n_valid=scn['refm']['n_valid'],
                                      exact_penetrance=scn['refm']['exact_penetrance'])
            if o2b[0] != 'ok':
                viol.append({'cls': 'reference-marker-stage-rejects-statistics', 'detail': 'second dataset: ' + o2b[1][:300]})
                return res
            refm_list = [refm, sb.p('out', 'refm2', 'reference_markers.h5')]
        # ---- stage 3: query markers
        qm = sb.p('out', 'qm.json')
        o3, s3 = harness.run_call(sch[2], drivers.run_query_markers, refm_list, qm, sb.p('scratch'),
                                  n_processors=scn['qm']['n_processors'],
                                  n_per_utility=scn['qm']['n_per_utility'], query_path=qp if via_otf else None)
        if o3[0] != 'ok':
            viol.append({'cls': 'query-marker-stage-rejects-reference-markers', 'detail': o3[1][:400]})
            return res
        lookup = common.load_json(qm)
        root_children = tax.children(None, None)
        mcfg = dict(scn['map'], normalization='log2CPM', cloud_safe=False, transport='dir', max_gb=1.0)
        rt = mapfam.reduced_tax(W, mcfg)
        lk = {k: v for k, v in lookup.items() if k not in ('metadata', 'log')}
        used, errs = model.reconcile_markers(rt, lk if not mcfg.get('flatten') else
                                             {'None': sorted(set(g for v in lk.values() for g in v))},
                                             list(q_genes), mcfg['min_markers'])
        if errs:
            # the marker stages found no gene for some real choice (clusters not separable by the
            # thresholds): the property presupposes usable markers
            res['not_judged']['no_reference_marker_for_some_choice'] = 1
            res['nontrivial'] = False
            return res
        paths = {'query': qp, 'stats': stats, 'markers': qm}
        r4 = mapfam.run_map(sb, W, mcfg, sch[3], tag='cent', record=True, paths=paths)
        common.sched_stats(res, [s1, s2, s3, r4['sched']])
        if r4['outcome'][0] != 'ok':
            viol.append({'cls': 'mapping-rejects-pipeline-products', 'detail': r4['outcome'][1][:400]})
            return res
        results = {x['cell_id']: x for x in r4['blob']['results']}
        # ---- the same composition through the on-the-fly-marker entry point: identical results
        if via_otf:
            os.makedirs(sb.p('out', 'otf'), exist_ok=True)
            ocfg = drivers.otf_config(
                qp, stats, sb.p('out', 'otf'), sb.p('scratch'), tag='otf', n_processors=mcfg['n_processors'],
                n_valid=scn['refm']['n_valid'], exact_penetrance=scn['refm']['exact_penetrance'],
                n_per_utility=scn['qm']['n_per_utility'], chunk_size=mcfg['chunk_size'],
                bootstrap_factor=mcfg['bootstrap_factor'], bootstrap_iteration=mcfg['bootstrap_iteration'],
                rng_seed=mcfg['rng_seed'], n_runners_up=mcfg['n_runners_up'], min_markers=mcfg['min_markers'],
                flatten=mcfg['flatten'], normalization='log2CPM', max_gb=1.0)
            o5, s5 = harness.run_call(dict(scn['sched_otf']), drivers.run_otf, ocfg)
            common.sched_stats(res, [s5])
            res['probes']['on_the_fly_twin'] = 1
            if o5[0] != 'ok':
                viol.append({'cls': 'on-the-fly-run-fails-where-the-stages-succeed', 'detail': o5[1][:400]})
            else:
                b5 = common.load_json(ocfg['extended_result_path'])
                if b5.get('marker_genes') != r4['blob'].get('marker_genes'):
                    viol.append({'cls': 'on-the-fly-markers-differ-from-staged-markers',
                                 'detail': 'marker_genes of the on-the-fly run %r, of the staged run %r'
                                           % (b5.get('marker_genes'), r4['blob'].get('marker_genes'))})
                elif b5.get('results') != r4['blob'].get('results'):
                    k5 = [i for i, (a5, a4) in enumerate(zip(b5['results'], r4['blob']['results'])) if a5 != a4]
                    viol.append({'cls': 'on-the-fly-results-differ-from-staged-results',
                                 'detail': 'same statistics, thresholds, seed and chunking: %d records differ, first %r vs %r'
                                           % (len(k5), b5['results'][k5[0]] if k5 else None,
                                              r4['blob']['results'][k5[0]] if k5 else None)})
        # ---- precondition on the recorded draws, then the claim
        col = {g: i for i, g in enumerate(q_genes)}
        cq = cent[:, p]
        judged = skipped = 0
        # node visits: map (parent) -> list of (genes, leaves, subsets, cells)
        visits = []
        for w, records in r4['recs']:
            chunk = None
            i = 0
            while i < len(records):
                rec = records[i]
                if rec['ev'] == 'chunk':
                    chunk = rec['cells']
                elif rec['ev'] == 'node':
                    tl = records[i + 1] if i + 1 < len(records) and records[i + 1]['ev'] == 'tally' else None
                    visits.append((chunk, rec, tl))
                i += 1
        for li, lf in enumerate(leaves):
            cid = q_ids[li]
            rec = results[cid]
            res['evaluations'] += 1
            ok_pre = True
            path_parent = (None, None)
            for lv in rt.hierarchy:
                ch = rt.children(path_parent[0], path_parent[1])
                true_child = rt.ancestor(rt.leaf_level, lf, lv)
                if len(ch) >= 2:
                    pkey = None if path_parent[0] is None else [path_parent[0], path_parent[1]]
                    mine = [(c, nd, tl) for (c, nd, tl) in visits if nd['parent'] == pkey and cid in (c or [])]
                    if not mine or mine[0][2] is None:
                        ok_pre = False       # the cell never reached this node (already mis-assigned above)
                        break
                    c, nd, tl = mine[0]
                    genes = nd['genes']
                    under = nd['leaves']
                    sub_cent = np.array([[cent[leaves.index(u)][cols.index(g)] for g in genes] for u in under])
                    own = under.index(lf) if lf in under else None
                    if own is None:
                        ok_pre = False
                        break
                    for sub in tl['subsets']:
                        ss = sorted(sub)
                        v = sub_cent[own][ss]
                        if np.ptp(v) == 0.0:
                            ok_pre = False
                            break
                        corr = model.pearson_rows(v[None, :], sub_cent[:, ss])[0]
                        others = [corr[k] for k in range(len(under)) if k != own]
                        if others and max(others) > 1.0 - 1e-9:
                            ok_pre = False
                            break
                    if not ok_pre:
                        break
                path_parent = (lv, true_child)
            if not ok_pre:
                skipped += 1
                continue
            judged += 1
            lin = tax.lineage(lf)
            parent = (None, None)
            for lv in tax.hierarchy:
                d = rec[lv]
                if d['assignment'] != lin[lv]:
                    viol.append({'cls': 'centroid-not-mapped-home',
                                 'detail': 'centroid of leaf %r assigned %r at level %r (expected %r); factor %r'
                                           % (lf, d['assignment'], lv, lin[lv], mcfg['bootstrap_factor'])})
                    break
                if lv in rt.hierarchy:
                    ch = rt.children(parent[0], parent[1])
                    if len(ch) >= 2:
                        if abs(d['bootstrapping_probability'] - 1.0) > 1e-12 or abs(d['avg_correlation'] - 1.0) > 1e-9:
                            viol.append({'cls': 'centroid-confidence',
                                         'detail': 'centroid of leaf %r at level %r: probability %r correlation %r'
                                                   % (lf, lv, d['bootstrapping_probability'], d['avg_correlation'])})
                            break
                    parent = (lv, d['assignment'])
        res['probes']['centroids_judged'] = judged
        res['not_judged']['centroid_precondition_fails'] = skipped
        multi = any(s.max_inflight >= 2 for s in (s1, s2, s3, r4['sched']))
        res['nontrivial'] = judged > 0 and multi
        res['key'] = model.canonical_json([scn['wp'], scn['stats'], scn['refm'], scn['qm'], scn['map']])
        res['sample'] = {'hierarchy': tax.hierarchy, 'leaves': len(leaves), 'genes': len(cols),
                         'markers_at_root': len(lookup.get('None', [])), 'factor': mcfg['bootstrap_factor'],
                         'centroids_judged': judged, 'skipped': skipped,
                         'policies': [s['policy'] for s in scn['scheds']]}
        res['ticks'] = KERNEL.n_ticks
        return res
    finally:
        sb.end()


def shrink(scn, violation=None):
    for i, s in enumerate(scn['scheds']):
        if s.get('policy') != 'fifo':
            c = dict(scn)
            c['scheds'] = [dict(x) for x in scn['scheds']]
            c['scheds'][i] = {'policy': 'fifo', 'seed': 0}
            yield c
    for wp in common.shrink_numbers(scn['wp'], ['n_leaves', 'depth', 'n_genes']):
        c = dict(scn)
        c['wp'] = wp
        yield c
