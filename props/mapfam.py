"""
Mapping family: one shared scenario runner and the oracles of C01, C02, C03, C08, C15
(C06, C07, C17 build pairs on top of it).  Oracles use the generator's own parent table
(sim.model.Tax), never the repository's TaxonomyTree.
"""
import builtins
import csv
import io
import json
import math
import os

import numpy as np

from sim import drivers, harness, kernel, model, world
from sim.kernel import KERNEL, HarnessError
from . import common

TOL = 1e-9


# ---------------------------------------------------------------------------
# recording wrappers at the randomness seam (inside the simulated workers)
# ---------------------------------------------------------------------------

_REC_INSTALLED = {}


class _RngProxy(object):
    def __init__(self, rng, log):
        self._r = rng
        self._log = log

    def choice(self, a, size=None, replace=True, *args, **kw):
        out = self._r.choice(a, size, replace, *args, **kw)
        self._log.append([int(x) for x in np.atleast_1d(out)])
        return out

    def __getattr__(self, k):
        return getattr(self._r, k)


def _rec_path():
    c = KERNEL.child
    if KERNEL.in_child and c is not None:
        return os.path.join(KERNEL.trace_dir, 'rec_%d_%d.jsonl' % (c._sim_sched.call_id, c._sim_id))
    return os.path.join(KERNEL.trace_dir, 'rec_parent.jsonl')


def _rec(obj):
    with builtins.open(_rec_path(), 'a') as f:
        f.write(json.dumps(obj) + '\n')


def install_recorders():
    """wrap election.tally_votes / assemble_query_data / the worker entry point (idempotent)"""
    import cell_type_mapper.type_assignment.election as el
    if _REC_INSTALLED.get('mod') is el:
        return
    for name in ('tally_votes', 'assemble_query_data', '_run_type_assignment_on_h5ad_worker'):
        if not hasattr(el, name):
            raise HarnessError('recording seam election.%s not found' % name)
    orig_tv = el.tally_votes
    orig_aq = el.assemble_query_data
    orig_w = el._run_type_assignment_on_h5ad_worker

    def tally_votes(*a, **k):
        if not (KERNEL.active and KERNEL.recording):
            return orig_tv(*a, **k)
        log = []
        if 'rng' in k:
            k = dict(k, rng=_RngProxy(k['rng'], log))
        else:
            a = list(a)
            a[4] = _RngProxy(a[4], log)
        out = orig_tv(*a, **k)
        q = k.get('query_gene_data', a[0] if a else None)
        _rec({'ev': 'tally', 'subsets': log, 'n_markers': int(q.shape[1]), 'n_cells': int(q.shape[0]),
              'factor': float(k.get('bootstrap_factor', a[2] if len(a) > 2 else -1)),
              'iterations': int(k.get('bootstrap_iteration', a[3] if len(a) > 3 else -1))})
        return out

    def assemble_query_data(*a, **k):
        out = orig_aq(*a, **k)
        if KERNEL.active and KERNEL.recording:
            pn = k.get('parent_node', a[4] if len(a) > 4 else None)
            _rec({'ev': 'node', 'parent': list(pn) if pn is not None else None,
                  'genes': list(out['query_data'].gene_identifiers),
                  'ref_genes': list(out['reference_data'].gene_identifiers),
                  'leaves': list(out['reference_data'].cell_identifiers),
                  'types': [str(t) for t in out['reference_types']],
                  'q': np.asarray(out['query_data'].data).tolist(),
                  'ref': np.asarray(out['reference_data'].data).tolist()})
        return out

    def worker(*a, **k):
        if KERNEL.active and KERNEL.recording:
            _rec({'ev': 'chunk', 'cells': [str(c) for c in k.get('query_cell_names', [])],
                  'r0': int(k.get('r0', -1)), 'r1': int(k.get('r1', -1))})
        return orig_w(*a, **k)

    el.tally_votes = tally_votes
    el.assemble_query_data = assemble_query_data
    el._run_type_assignment_on_h5ad_worker = worker
    _REC_INSTALLED['mod'] = el


def read_recordings(trace_dir, call_id):
    """[(worker id, [records])] for one simulated call"""
    out = []
    for fn in sorted(os.listdir(trace_dir)):
        if fn.startswith('rec_%d_' % call_id) and fn.endswith('.jsonl'):
            w = int(fn[:-6].split('_')[2])
            with builtins.open(os.path.join(trace_dir, fn)) as f:
                recs = [json.loads(l) for l in f if l.strip()]
            out.append((w, recs))
    return sorted(out)


# ---------------------------------------------------------------------------
# the scenario runner
# ---------------------------------------------------------------------------

def run_map(sb, W, mcfg, sched, tag='out', out_sub=None, record=False, paths=None, **setup_kw):
    """write inputs (unless given), run the real mapping CLI body under `sched`"""
    if paths is None:
        paths = common.setup_mapping_inputs(sb, W, mcfg, tag='_' + tag, **setup_kw)
    dcfg = common.mapping_driver_cfg(sb, paths, mcfg, tag=tag, out_sub=out_sub)
    if record:
        install_recorders()
    KERNEL.recording = bool(record)
    try:
        out, s = harness.run_call(sched, drivers.run_mapping, dcfg)
    finally:
        KERNEL.recording = False
    blob = None
    if os.path.exists(dcfg['extended_result_path']):
        try:
            blob = common.load_json(dcfg['extended_result_path'])
        except Exception:
            blob = None
    recs = read_recordings(sb.trace, s.call_id) if record else None
    return {'outcome': out, 'blob': blob, 'sched': s, 'recs': recs, 'dcfg': dcfg, 'paths': paths}


def reduced_tax(W, mcfg):
    tax = W.tax
    if mcfg.get('flatten'):
        return tax.flatten()
    dl = mcfg.get('drop_level')
    if dl is not None and dl in tax.hierarchy and dl != tax.leaf_level:
        return tax.drop_level(dl)
    return tax


def effective_markers(W, mcfg, markers=None):
    lookup = dict(W.markers if markers is None else markers)
    if mcfg.get('flatten'):
        allm = sorted(set(g for k, v in lookup.items() for g in v))
        lookup = {'None': allm}
    return lookup


def expectations(W, mcfg, markers=None, q_genes=None):
    """what the model says about the run before it happens"""
    rt = reduced_tax(W, mcfg)
    lookup = effective_markers(W, mcfg, markers)
    qg = W.q_genes if q_genes is None else q_genes
    used, errs = model.reconcile_markers(rt, lookup, qg, mcfg['min_markers'])
    unknown = sorted(set(g for v in lookup.values() for g in v) - set(W.genes))
    return {'rt': rt, 'lookup': lookup, 'used': used, 'errors': errs, 'unknown_to_reference': unknown}


# ---------------------------------------------------------------------------
# C01
# ---------------------------------------------------------------------------

def check_c01(W, mcfg, blob, q_ids=None):
    """returns list of (cls, detail)"""
    bad = []
    tax = W.tax
    rt = reduced_tax(W, mcfg)
    q_ids = W.q_ids if q_ids is None else q_ids
    res = blob.get('results')
    if res is None:
        return [('no-results', 'output has no results')]
    if len(res) != len(q_ids):
        return [('record-count', '%d records for %d query cells' % (len(res), len(q_ids)))]
    for i, (rec, cid) in enumerate(zip(res, q_ids)):
        if rec.get('cell_id') != cid:
            bad.append(('cell-order', 'record %d carries cell_id %r, query row %d is %r'
                        % (i, rec.get('cell_id'), i, cid)))
            break
    for i, rec in enumerate(res):
        for lv in tax.hierarchy:
            if lv not in rec:
                bad.append(('level-missing', 'record %d (%s) lacks level %r' % (i, rec.get('cell_id'), lv)))
                return bad
        prev = None
        for lv in tax.hierarchy:
            a = rec[lv].get('assignment')
            if a not in tax.nodes[lv]:
                bad.append(('not-a-node', 'record %d: %r is not a node of level %r' % (i, a, lv)))
                return bad
            if prev is not None and tax.parent[(lv, a)] != prev[1]:
                bad.append(('not-a-path', 'record %d: %r at %r is not a child of %r at %r'
                            % (i, a, lv, prev[1], prev[0])))
                return bad
            prev = (lv, a)
        for lv in tax.hierarchy:
            da = rec[lv].get('directly_assigned')
            if lv in rt.hierarchy:
                if da is not True:
                    bad.append(('flag', 'record %d: voted level %r has directly_assigned=%r' % (i, lv, da)))
                    return bad
            else:
                if da is not False:
                    bad.append(('flag', 'record %d: inferred level %r has directly_assigned=%r' % (i, lv, da)))
                    return bad
                if any(k.startswith('runner_up') for k in rec[lv]):
                    bad.append(('flag', 'record %d: inferred level %r carries runner-up fields' % (i, lv)))
                    return bad
    return bad


# ---------------------------------------------------------------------------
# C03
# ---------------------------------------------------------------------------

def check_c03(W, mcfg, blob):
    bad = []
    tax = W.tax
    rt = reduced_tax(W, mcfg)
    n_iter = mcfg['bootstrap_iteration']
    n_ru = mcfg['n_runners_up']
    res = blob.get('results') or []

    def isnum(x):
        return isinstance(x, (int, float)) and not isinstance(x, bool) and math.isfinite(x)
    for i, rec in enumerate(res):
        agg = 1.0
        last_real_corr = None
        top_chain = []          # single-child levels with no real choice above them
        parent = (None, None)
        for lv in rt.hierarchy:
            d = rec[lv]
            where = 'record %d (%s) level %r' % (i, rec.get('cell_id'), lv)
            p = d.get('bootstrapping_probability')
            c = d.get('avg_correlation')
            if not isnum(p) or not isnum(c):
                bad.append(('not-a-number', '%s: probability %r correlation %r' % (where, p, c)))
                return bad
            votes = p * n_iter
            if abs(votes - round(votes)) > 1e-6 or not (0.0 < p <= 1.0 + 1e-12):
                bad.append(('probability', '%s: probability %r is not a whole number of votes out of %d in (0,1]'
                            % (where, p, n_iter)))
                return bad
            if not (-1.0 - TOL <= c <= 1.0 + TOL):
                bad.append(('correlation-range', '%s: correlation %r' % (where, c)))
                return bad
            sibs = rt.children(parent[0], parent[1])
            ra = d.get('runner_up_assignment')
            rc = d.get('runner_up_correlation')
            rp = d.get('runner_up_probability')
            if ra is None or rc is None or rp is None:
                bad.append(('runner-up-missing', '%s: runner-up lists absent' % where))
                return bad
            if not (len(ra) == len(rc) == len(rp)) or len(ra) > n_ru:
                bad.append(('runner-up-length', '%s: lengths %d/%d/%d, requested %d'
                            % (where, len(ra), len(rc), len(rp), n_ru)))
                return bad
            if len(set(ra)) != len(ra) or d['assignment'] in ra or any(r not in sibs for r in ra):
                bad.append(('runner-up-identity', '%s: runners-up %r, winner %r, siblings %r'
                            % (where, ra, d['assignment'], sibs)))
                return bad
            for a, b in zip([p] + list(rp), list(rp)):
                if not (b > 0.0) or b > a + 1e-12:
                    bad.append(('runner-up-order', '%s: probabilities %r after winner %r' % (where, rp, p)))
                    return bad
            if any(not isnum(x) or not (-1.0 - TOL <= x <= 1.0 + TOL) for x in rc):
                bad.append(('correlation-range', '%s: runner-up correlations %r' % (where, rc)))
                return bad
            tot = p + sum(rp)
            if tot > 1.0 + 1e-9:
                bad.append(('probability-sum', '%s: winner + runners-up sum to %r' % (where, tot)))
                return bad
            if len(sibs) - 1 <= n_ru and abs(tot - 1.0) > 1e-9:
                bad.append(('probability-sum', '%s: all %d siblings could be listed but the sum is %r'
                            % (where, len(sibs), tot)))
                return bad
            if len(sibs) == 1:
                if abs(p - 1.0) > 1e-12 or ra:
                    bad.append(('single-child', '%s: single child with probability %r runners-up %r'
                                % (where, p, ra)))
                    return bad
                if last_real_corr is not None and abs(c - last_real_corr) > 1e-12:
                    bad.append(('single-child', '%s: correlation %r, nearest real choice above had %r'
                                % (where, c, last_real_corr)))
                    return bad
                if last_real_corr is None:
                    top_chain.append((where, c))
            else:
                # no real choice exists ABOVE a single-child chain that starts at the top: the number reported there
                # is either the neutral 1.0 or this cell's own correlation at the nearest real choice below -- both
                # readings of "nearest" are accepted, a number that belongs to neither (e.g. to another cell) is not
                for w2, c2 in top_chain:
                    if abs(c2 - 1.0) > 1e-12 and abs(c2 - c) > 1e-12:
                        bad.append(('single-child', '%s: correlation %r is neither 1.0 nor this cell\'s correlation %r '
                                    'at the nearest real choice (level %r)' % (w2, c2, c, lv)))
                        return bad
                top_chain = []
                last_real_corr = c
            agg *= p
            ap = d.get('aggregate_probability')
            if not isnum(ap) or abs(ap - agg) > 1e-9 * max(1.0, abs(agg)):
                bad.append(('aggregate', '%s: aggregate_probability %r, running product %r' % (where, ap, agg)))
                return bad
            parent = (lv, d['assignment'])
        # inferred levels repeat the numbers of the voted descendant
        for li, lv in enumerate(tax.hierarchy):
            if lv in rt.hierarchy:
                continue
            finer = [l2 for l2 in tax.hierarchy[li + 1:] if l2 in rt.hierarchy]
            if not finer:
                continue
            src = rec[finer[0]]
            d = rec[lv]
            for k in ('bootstrapping_probability', 'avg_correlation', 'aggregate_probability'):
                if d.get(k) != src.get(k):
                    bad.append(('inferred-level', 'record %d level %r: %s=%r, voted descendant %r has %r'
                                % (i, lv, k, d.get(k), finer[0], src.get(k))))
                    return bad
    return bad


# ---------------------------------------------------------------------------
# C02 / C08: refinement of the recorded history
# ---------------------------------------------------------------------------

def _node_key(parent):
    return 'None' if parent is None else '%s/%s' % (parent[0], parent[1])


def check_history(W, mcfg, blob, recs, exp, want=('C02', 'C08'), normalization='raw', stats=None,
                  q_X=None, q_genes=None, q_ids=None):
    """
    recs: [(worker, records)].  Returns (violations [(cls, detail)], counters dict).
    The oracle recomputes everything from the INPUT (world matrices) and the recorded subsets.
    """
    bad = []
    cnt = {'node_visits': 0, 'votes': 0, 'ambiguous_iterations': 0, 'cells_judged': 0,
           'ambiguous_winner': 0}
    rt = exp['rt']
    q_X = W.q_X if q_X is None else q_X
    q_genes = W.q_genes if q_genes is None else q_genes
    q_ids = W.q_ids if q_ids is None else q_ids
    ql2 = model.log2cpm(q_X) if normalization == 'raw' else np.asarray(q_X, dtype=float)
    qrow = {c: i for i, c in enumerate(q_ids)}
    qcol = {g: i for i, g in enumerate(q_genes)}
    leaves, st = W.model_stats()
    lrow = {lf: i for i, lf in enumerate(leaves)}
    rcol = {g: i for i, g in enumerate(W.genes)}
    means = st['sum'] / np.maximum(1, st['n_cells'])[:, None]
    results = {r['cell_id']: r for r in (blob.get('results') or [])}
    n_iter = mcfg['bootstrap_iteration']
    factor = mcfg['bootstrap_factor']
    n_ru = mcfg['n_runners_up']
    seen_cells = set()
    for w, records in recs:
        chunk = None
        i = 0
        while i < len(records):
            r = records[i]
            if r['ev'] == 'chunk':
                chunk = r['cells']
                for c in chunk:
                    if c in seen_cells:
                        bad.append(('C02', 'cell-in-two-chunks', 'cell %r handed to two workers' % c))
                    seen_cells.add(c)
                i += 1
                continue
            if r['ev'] != 'node':
                i += 1
                continue
            node = r
            tally = records[i + 1] if i + 1 < len(records) and records[i + 1]['ev'] == 'tally' else None
            i += 2 if tally else 1
            cnt['node_visits'] += 1
            parent = tuple(node['parent']) if node['parent'] is not None else None
            key = _node_key(parent)
            if parent is None:
                plevel, pnode = None, None
            else:
                plevel, pnode = parent
            child_level = rt.child_level(plevel)
            # cells at this node: cells of the chunk assigned to the parent, in chunk order
            if parent is None:
                cells = list(chunk)
            else:
                cells = [c for c in chunk if results.get(c, {}).get(plevel, {}).get('assignment') == pnode]
            # ---- C08: genes the worker saw == model's reconciliation, paired by name
            if 'C08' in want:
                want_genes = exp['used'].get(key)
                if want_genes is not None and set(node['genes']) != set(want_genes):
                    bad.append(('C08', 'node-genes',
                                'parent %s: workers used %r, reconciliation by the property text gives %r'
                                % (key, sorted(node['genes']), sorted(want_genes))))
                    continue
                if node['genes'] != node['ref_genes']:
                    bad.append(('C08', 'name-pairing', 'parent %s: query columns %r vs reference columns %r'
                                % (key, node['genes'][:6], node['ref_genes'][:6])))
                    continue
            genes = node['genes']
            qm = np.array(node['q'], dtype=float).reshape(len(node['q']), len(genes))
            rm = np.array(node['ref'], dtype=float).reshape(len(node['leaves']), len(genes))
            # ---- (a) matrices equal the by-name model matrices
            want_leaves = rt.leaves_under(plevel, pnode)
            if sorted(node['leaves']) != sorted(want_leaves):
                bad.append(('C02', 'leaf-restriction', 'parent %s: reference rows are leaves %r, leaves under the '
                            'node are %r' % (key, node['leaves'], want_leaves)))
                continue
            for li, lf in enumerate(node['leaves']):
                tchild = rt.ancestor(rt.leaf_level, lf, child_level)
                if node['types'][li] != tchild:
                    bad.append(('C02', 'leaf-owner', 'parent %s: leaf %r credited to child %r, belongs to %r'
                                % (key, lf, node['types'][li], tchild)))
            if any(g not in qcol or g not in rcol for g in genes):
                bad.append(('C08', 'gene-not-shared', 'parent %s uses a gene absent from query or reference' % key))
                continue
            m_ref = means[[lrow[lf] for lf in node['leaves']]][:, [rcol[g] for g in genes]]
            if m_ref.shape != rm.shape or not np.allclose(m_ref, rm, rtol=1e-9, atol=1e-9):
                bad.append(('C02', 'reference-matrix', 'parent %s: reference matrix seen by the worker differs from '
                            'sum/n_cells of the leaves on the node genes by name (max diff %g)'
                            % (key, float(np.max(np.abs(m_ref - rm))) if m_ref.shape == rm.shape else -1)))
                continue
            if len(cells) != qm.shape[0]:
                bad.append(('C02', 'node-cells', 'parent %s: worker handled %d cells, %d cells of its chunk are '
                            'assigned to that parent' % (key, qm.shape[0], len(cells))))
                continue
            m_q = ql2[[qrow[c] for c in cells]][:, [qcol[g] for g in genes]]
            if not np.allclose(m_q, qm, rtol=1e-9, atol=1e-9):
                bad.append(('C02', 'query-matrix', 'parent %s: query matrix seen by the worker differs from '
                            'log2(CPM+1) of those cells on those genes by name (max diff %g)'
                            % (key, float(np.max(np.abs(m_q - qm))))))
                continue
            if 'C02' not in want or tally is None:
                continue
            # ---- (b) subsets
            n = len(genes)
            factor = common.factor_for(mcfg, plevel)
            want_size = model.bootstrap_size(factor, n)
            subsets = tally['subsets']
            if len(subsets) != n_iter:
                bad.append(('C02', 'iteration-count', 'parent %s: %d subsets drawn for %d iterations'
                            % (key, len(subsets), n_iter)))
                continue
            ok = True
            for sidx, sub in enumerate(subsets):
                if len(sub) != want_size or len(set(sub)) != len(sub) or (sub and (min(sub) < 0 or max(sub) >= n)):
                    bad.append(('C02', 'subset', 'parent %s iteration %d: subset of size %d (distinct %d) from %d '
                                'markers; expected a duplicate-free subset of size max(1, round(%r*%d)) = %d'
                                % (key, sidx, len(sub), len(set(sub)), n, factor, n, want_size)))
                    ok = False
                    break
            if not ok:
                continue
            # ---- (c) votes from (a) and the recorded subsets
            children = sorted(set(node['types']))
            cidx = {c: j for j, c in enumerate(children)}
            owner = np.array([cidx[t] for t in node['types']])
            n_c = len(cells)
            vmin = np.zeros((n_c, len(children)), dtype=int)     # votes that are certain
            vmax = np.zeros((n_c, len(children)), dtype=int)     # certain + ambiguous
            csum = np.zeros((n_c, len(children)))
            amb_cell = np.zeros(n_c, dtype=bool)
            for sub in subsets:
                cols = sorted(sub)
                corr = model.pearson_rows(m_q[:, cols], m_ref[:, cols])
                for ci in range(n_c):
                    row = corr[ci]
                    best = int(np.argmax(row))
                    bchild = owner[best]
                    other = row[owner != bchild]
                    margin = row[best] - (other.max() if other.size else -np.inf)
                    cnt['votes'] += 1
                    if margin < TOL:
                        cnt['ambiguous_iterations'] += 1
                        amb_cell[ci] = True
                        for j in set(owner[row >= row[best] - TOL].tolist()):
                            vmax[ci, j] += 1
                    else:
                        vmin[ci, bchild] += 1
                        vmax[ci, bchild] += 1
                        csum[ci, bchild] += row[best]
            for ci, c in enumerate(cells):
                rec = results.get(c)
                if rec is None:
                    continue
                d = rec[child_level]
                cnt['cells_judged'] += 1
                a = d['assignment']
                if a not in cidx:
                    bad.append(('C02', 'winner-not-child', 'cell %r: %r is not a child of %s' % (c, a, key)))
                    continue
                j = cidx[a]
                got_votes = d['bootstrapping_probability'] * n_iter
                if not (vmin[ci, j] - 1e-6 <= got_votes <= vmax[ci, j] + 1e-6):
                    bad.append(('C02', 'vote-share', 'cell %r at %s: reported probability %r (= %.3f votes of %d) '
                                'for %r; recomputed votes in [%d,%d] (all children: min %r max %r)'
                                % (c, key, d['bootstrapping_probability'], got_votes, n_iter, a,
                                   vmin[ci, j], vmax[ci, j], vmin[ci].tolist(), vmax[ci].tolist())))
                    continue
                # plurality: no other child can have strictly more certain votes than the winner's maximum
                if any(vmin[ci, k] > vmax[ci, j] for k in range(len(children)) if k != j):
                    bad.append(('C02', 'not-plurality', 'cell %r at %s: winner %r with at most %d votes while '
                                'another child has at least %d' % (c, key, a, vmax[ci, j], int(vmin[ci].max()))))
                    continue
                if amb_cell[ci]:
                    cnt['ambiguous_winner'] += 1
                    continue
                # exact checks for unambiguous cells
                if vmin[ci, j] != vmin[ci].max():
                    bad.append(('C02', 'not-plurality', 'cell %r at %s: winner %r has %d votes, maximum is %d'
                                % (c, key, a, vmin[ci, j], int(vmin[ci].max()))))
                    continue
                want_corr = csum[ci, j] / max(1, vmin[ci, j])
                if abs(d['avg_correlation'] - want_corr) > 1e-8:
                    bad.append(('C02', 'avg-correlation', 'cell %r at %s: avg_correlation %r, mean winning '
                                'correlation over the iterations that voted for %r is %r'
                                % (c, key, d['avg_correlation'], a, want_corr)))
                    continue
                others = [(int(vmin[ci, k]), children[k], csum[ci, k] / max(1, vmin[ci, k]))
                          for k in range(len(children)) if k != j and vmin[ci, k] > 0]
                others.sort(key=lambda t: -t[0])
                want_n = min(n_ru, len(others))
                ra, rp, rc = d['runner_up_assignment'], d['runner_up_probability'], d['runner_up_correlation']
                if len(ra) != want_n:
                    bad.append(('C02', 'runner-up-count', 'cell %r at %s: %d runners-up reported, %d vote-getting '
                                'siblings, %d requested' % (c, key, len(ra), len(others), n_ru)))
                    continue
                want_p = [o[0] / n_iter for o in others][:want_n]
                if any(abs(x - y) > 1e-9 for x, y in zip(rp, want_p)):
                    bad.append(('C02', 'runner-up-share', 'cell %r at %s: runner-up probabilities %r, recomputed %r'
                                % (c, key, rp, want_p)))
                    continue
                lookup_o = {o[1]: o for o in others}
                for nm, pp, cc in zip(ra, rp, rc):
                    o = lookup_o.get(nm)
                    if o is None or abs(o[0] / n_iter - pp) > 1e-9 or abs(o[2] - cc) > 1e-8:
                        bad.append(('C02', 'runner-up-value', 'cell %r at %s: runner-up %r (%r, %r) does not match '
                                    'the recomputed %r' % (c, key, nm, pp, cc, o)))
                        break
    return bad, cnt


# ---------------------------------------------------------------------------
# C15: the three output files tell the same story
# ---------------------------------------------------------------------------

def check_c15(W, mcfg, blob, dcfg, exp):
    bad = []
    tax = W.tax
    res = blob['results']
    # ---- CSV
    with open(dcfg['csv_result_path'], newline='') as f:
        text = f.read()
    lines = text.split('\n')
    n_c = 0
    while n_c < len(lines) and lines[n_c].startswith('#'):
        n_c += 1            # only the LEADING lines are comments (a cell id may start with '#')
    comments = lines[:n_c]
    body = '\n'.join(lines[n_c:])
    ctext = '\n'.join(comments)
    if os.path.basename(dcfg['extended_result_path']) not in ctext:
        bad.append(('csv-comment', 'comment lines do not name the JSON file: %r' % comments))
    if json.dumps(tax.hierarchy) not in ctext:
        bad.append(('csv-comment', 'comment lines do not give the hierarchy: %r' % comments))
    readable = [tax.level_to_name(lv) for lv in tax.hierarchy]
    if readable != tax.hierarchy and json.dumps(readable) not in ctext:
        bad.append(('csv-comment', 'comment lines do not give the readable hierarchy: %r' % comments))
    import cell_type_mapper
    if 'version: %s' % cell_type_mapper.__version__ not in ctext:
        bad.append(('csv-comment', 'comment lines do not give the software version: %r' % comments))
    rows = list(csv.DictReader(io.StringIO(body)))
    if len(rows) != len(res):
        bad.append(('csv-rows', '%d CSV rows for %d records' % (len(rows), len(res))))
        return bad
    conf_key = 'avg_correlation' if mcfg['bootstrap_iteration'] == 1 else 'bootstrapping_probability'
    conf_label = 'correlation_coefficient' if mcfg['bootstrap_iteration'] == 1 else 'bootstrapping_probability'
    for i, (row, rec) in enumerate(zip(rows, res)):
        if row.get('cell_id') != rec['cell_id']:
            bad.append(('csv-order', 'CSV row %d is cell %r, JSON record %d is %r'
                        % (i, row.get('cell_id'), i, rec['cell_id'])))
            return bad
        for lv in tax.hierarchy:
            rl = tax.level_to_name(lv)
            a = rec[lv]['assignment']
            want = {'%s_label' % rl: a, '%s_name' % rl: tax.label_to_name(lv, a, 'name')}
            if lv == tax.leaf_level:
                want['%s_alias' % rl] = tax.label_to_name(lv, a, 'alias')
            want['%s_%s' % (rl, conf_label)] = '%.4f' % rec[lv][conf_key]
            for k, v in want.items():
                if k not in row:
                    bad.append(('csv-column', 'CSV lacks column %r (has %r)' % (k, list(row)[:12])))
                    return bad
                if row[k] != str(v):
                    bad.append(('csv-value', 'row %d column %r: CSV %r, JSON gives %r' % (i, k, row[k], str(v))))
                    return bad
    # ---- HDF5 round trip
    from cell_type_mapper.utils.output_utils import hdf5_to_blob
    try:
        back = hdf5_to_blob(dcfg['hdf5_result_path'])
    except Exception as e:  # the run succeeded and wrote the file: a reader that cannot read it back is a broken round trip
        bad.append(('hdf5-unreadable', 'hdf5_to_blob raised %s: %s on the file a successful run wrote'
                    % (type(e).__name__, str(e)[:160])))
        return bad
    bres = back.get('results')
    if bres is None or len(bres) != len(res):
        bad.append(('hdf5-rows', 'HDF5 read-back has %r records for %d' % (None if bres is None else len(bres),
                                                                           len(res))))
        return bad
    for i, (a, b) in enumerate(zip(res, bres)):
        if a.get('cell_id') != b.get('cell_id'):
            bad.append(('hdf5-order', 'record %d: JSON cell %r, HDF5 cell %r' % (i, a.get('cell_id'), b.get('cell_id'))))
            return bad
        for lv in tax.hierarchy:
            da, db = a[lv], b.get(lv)
            if db is None:
                bad.append(('hdf5-level', 'record %d: level %r missing from HDF5 read-back' % (i, lv)))
                return bad
            for k in da:
                va, vb = da[k], db.get(k)
                if isinstance(va, list):
                    same = vb is not None and len(va) == len(vb) and all(
                        (x == y) or (isinstance(x, float) and isinstance(y, (int, float))
                                     and abs(x - y) <= 1e-12 * max(1.0, abs(x))) for x, y in zip(va, vb))
                elif isinstance(va, float):
                    same = isinstance(vb, (int, float)) and abs(va - vb) <= 1e-12 * max(1.0, abs(va))
                else:
                    same = va == vb
                if not same:
                    bad.append(('hdf5-value', 'record %d level %r field %r: JSON %r, HDF5 read-back %r'
                                % (i, lv, k, va, vb)))
                    return bad
    # ---- embedded taxonomy and marker table
    emb = blob.get('taxonomy_tree')
    if emb is None:
        bad.append(('embedded-taxonomy', 'no taxonomy_tree in the output'))
    else:
        want = tax.to_dict(None)
        got = {k: v for k, v in emb.items() if k != 'metadata'}
        if got != want:
            bad.append(('embedded-taxonomy', 'embedded taxonomy differs from the input taxonomy without cells: '
                        '%r vs %r' % (json.dumps(got)[:300], json.dumps(want)[:300])))
    bad.extend(check_marker_output(blob, exp))
    return bad


def check_marker_output(blob, exp):
    """the marker table reported in the output lists, per parent of the run's tree, what was used"""
    bad = []
    mg = blob.get('marker_genes')
    if mg is None:
        return [('embedded-markers', 'no marker_genes in the output')]
    rt = exp['rt']
    for parent in rt.all_parents():
        key = _node_key(parent)
        ch = rt.children(None, None) if parent is None else rt.children(parent[0], parent[1])
        want = exp['used'].get(key, set()) if len(ch) >= 2 else set()
        if key == 'None' and len(ch) < 2:
            continue        # a root with a single child needs no markers; what is listed is not defined
        if key not in mg:
            bad.append(('embedded-markers', 'marker_genes lacks parent %r' % key))
            break
        if set(mg[key]) != set(want) or len(mg[key]) != len(set(mg[key])):
            bad.append(('embedded-markers', 'marker_genes[%r] = %r, reconciliation by the property text gives %r'
                        % (key, sorted(mg[key]), sorted(want))))
            break
    return bad


# ---------------------------------------------------------------------------
# single-run property modules (C01, C03, C02, C08, C15)
# ---------------------------------------------------------------------------

def single_run(scn, sb, oracle):
    res = {'violations': [], 'probes': {}, 'faults': {}, 'interleavings': [], 'not_judged': {}}
    W = world.make_world(scn['wp'])
    mcfg = scn['cfg']
    common.begin(sb, scn['kcfg'])
    try:
        exp = expectations(W, mcfg, markers=scn.get('markers'))
        record = oracle in ('C02', 'C08')
        r = run_map(sb, W, mcfg, dict(scn['sched']), record=record, markers=scn.get('markers'),
                    q_genes=scn.get('q_genes'))
        if scn.get('q_genes'):
            exp = expectations(W, mcfg, markers=scn.get('markers'), q_genes=scn['q_genes'])
        common.sched_stats(res, [r['sched']])
        out = r['outcome']
        pr = res['probes']
        rt = exp['rt']
        n_chunks = len(r['sched'].procs)
        if rt.hierarchy != W.tax.hierarchy:
            pr['reduced_taxonomy'] = 1
        if any(len(rt.children(p[0], p[1])) == 1 for p in rt.all_parents() if p is not None) \
                or len(rt.children(None, None)) == 1:
            pr['single_child_branch'] = 1
        if len(rt.children(None, None)) == 1:
            pr['single_node_top_level'] = 1
        if mcfg.get('transport') == 'resultdir':
            pr['result_dir_transport'] = 1
        if mcfg['bootstrap_iteration'] == 1:
            pr['single_iteration'] = 1
        if mcfg['n_runners_up'] == 0:
            pr['zero_runners_up'] = 1
        expect_error = bool(exp['errors'] or exp['unknown_to_reference'])
        res['nontrivial'] = n_chunks >= 2 or 'reduced_taxonomy' in pr or 'single_child_branch' in pr
        res['key'] = model.canonical_json([scn['wp'], mcfg, scn.get('markers')])
        res['sample'] = {'hierarchy': W.tax.hierarchy, 'n_leaves': len(W.tax.leaves), 'n_query': len(W.q_ids),
                         'cfg': mcfg, 'policy': scn['sched']['policy'], 'chunks': n_chunks, 'outcome': out[0]}
        viol = res['violations']
        if oracle in ('C01', 'C03', 'C15', 'C02'):
            if expect_error:
                res['not_judged']['precondition_not_met'] = 1
                res['nontrivial'] = False
                return res
            if out[0] != 'ok':
                if oracle == 'C01':
                    viol.append({'cls': 'valid-input-not-mapped',
                                 'detail': 'valid taxonomy with a usable root marker raised %s' % out[1][:400]})
                else:
                    res['not_judged']['run_raised'] = 1
                    res['nontrivial'] = False
                return res
            blob = r['blob']
            if oracle == 'C01':
                bad = check_c01(W, mcfg, blob)
            elif oracle == 'C03':
                bad = check_c03(W, mcfg, blob)
                if not bad and r['dcfg'].get('hdf5_result_path') and os.path.exists(r['dcfg']['hdf5_result_path']):
                    # the same contract on the HDF5 output as the reader returns it (the HDF5 writer stores the numbers
                    # in its own arrays; equality with the JSON output is C15's business, the arithmetic is C03's)
                    try:
                        from cell_type_mapper.utils.output_utils import hdf5_to_blob
                        hb = hdf5_to_blob(r['dcfg']['hdf5_result_path'])
                    except Exception:
                        hb = None
                    if hb is not None and hb.get('results'):
                        bad = [(c_ + '-in-hdf5', d_) for c_, d_ in check_c03(W, mcfg, hb)]
            elif oracle == 'C15':
                bad = check_c15(W, mcfg, blob, r['dcfg'], exp)
            else:
                full, cnt = check_history(W, mcfg, blob, r['recs'], exp, want=('C02',))
                bad = [(c, d) for (p, c, d) in full if p == 'C02']
                for k, v in cnt.items():
                    pr[k] = pr.get(k, 0) + v
                res['evaluations'] = max(1, cnt['cells_judged'])
            for cls, detail in bad:
                viol.append({'cls': cls, 'detail': detail})
        if oracle == 'C08':
            blob = r['blob']
            if expect_error:
                pr['error_clause_runs'] = 1
                for e in (exp['errors'] or []):
                    pr['error_clause: root without usable markers'] = 1
                if exp['unknown_to_reference']:
                    pr['error_clause: marker unknown to the reference'] = 1
                if out[0] != 'raised':
                    viol.append({'cls': 'error-clause-not-enforced',
                                 'detail': 'the run mapped although %s' % (exp['errors'] or
                                                                            ('markers unknown to the reference: %r'
                                                                             % exp['unknown_to_reference'][:4]))})
                elif blob is not None and 'results' in blob:
                    viol.append({'cls': 'error-clause-not-enforced', 'detail': 'the run raised but wrote results'})
            elif out[0] != 'ok':
                res['not_judged']['run_raised'] = 1
                res['nontrivial'] = False
            else:
                full, cnt = check_history(W, mcfg, blob, r['recs'], exp, want=('C08',))
                bad = [(c, d) for (p, c, d) in full if p == 'C08']
                bad.extend(check_marker_output(blob, exp))
                for k, v in cnt.items():
                    pr[k] = pr.get(k, 0) + v
                # which branches of the fallback were exercised
                lk = exp['lookup']
                for key, used in exp['used'].items():
                    own = set(lk.get(key, [])) & set(W.q_genes)
                    if key != 'None' and len(own) < mcfg['min_markers']:
                        pr['ancestor_fallback'] = pr.get('ancestor_fallback', 0) + 1
                        if set(lk.get('None', [])) & set(used) - own:
                            pr['fallback_reached_root_list'] = pr.get('fallback_reached_root_list', 0) + 1
                    if key not in lk:
                        pr['parent_missing_from_table'] = pr.get('parent_missing_from_table', 0) + 1
                for cls, detail in bad:
                    viol.append({'cls': cls, 'detail': detail})
        res['ticks'] = KERNEL.n_ticks
        return res
    finally:
        sb.end()


def shrink_single(scn):
    if scn['sched'].get('policy') != 'fifo':
        c = dict(scn)
        c['sched'] = {'policy': 'fifo', 'seed': 0}
        yield c
    for wp in common.shrink_numbers(scn['wp'], ['n_query', 'n_leaves', 'depth', 'n_genes', 'q_extra']):
        c = dict(scn)
        c['wp'] = wp
        yield c
    for cfg in common.shrink_numbers(scn['cfg'], ['n_processors', 'bootstrap_iteration', 'n_runners_up',
                                                  'chunk_size'], lows={'n_runners_up': 0}):
        c = dict(scn)
        c['cfg'] = cfg
        yield c
    for k in ('flatten',):
        if scn['cfg'].get(k):
            c = dict(scn)
            c['cfg'] = dict(scn['cfg'], **{k: False})
            yield c
    if scn['cfg'].get('drop_level'):
        c = dict(scn)
        c['cfg'] = dict(scn['cfg'], drop_level=None)
        yield c


# ---------------------------------------------------------------------------
# paired runs (C06, C07, C17)
# ---------------------------------------------------------------------------

def cell_margin(W, exp, l2row, q_genes, rec):
    """
    smallest arg-max margin of a cell along its assigned path (all markers used, i.e. factor 1):
    difference between the best correlation and the best correlation among leaves of a different child.
    """
    rt = exp['rt']
    leaves, st = W.model_stats()
    lrow = {lf: i for i, lf in enumerate(leaves)}
    rcol = {g: i for i, g in enumerate(W.genes)}
    qcol = {g: i for i, g in enumerate(q_genes)}
    means = st['sum'] / np.maximum(1, st['n_cells'])[:, None]
    worst = np.inf
    parent = (None, None)
    for lv in rt.hierarchy:
        ch = rt.children(parent[0], parent[1])
        if len(ch) >= 2:
            key = 'None' if parent[0] is None else '%s/%s' % parent
            genes = sorted(exp['used'].get(key, []))
            genes = [g for g in genes if g in qcol and g in rcol]
            if not genes:
                return 0.0
            under = rt.leaves_under(parent[0], parent[1])
            m_ref = means[[lrow[lf] for lf in under]][:, [rcol[g] for g in genes]]
            q = l2row[[qcol[g] for g in genes]][None, :]
            corr = model.pearson_rows(q, m_ref)[0]
            owner = [rt.ancestor(rt.leaf_level, lf, lv) for lf in under]
            best = int(np.argmax(corr))
            other = [c for c, o in zip(corr, owner) if o != owner[best]]
            margin = corr[best] - (max(other) if other else -np.inf)
            worst = min(worst, margin)
        parent = (lv, rec[lv]['assignment'])
    return worst


def compare_records(a, b, levels, exact, tol=1e-9):
    """field-by-field comparison of two result records; returns description of first difference or None"""
    for lv in levels:
        da, db = a[lv], b[lv]
        for k in ('assignment', 'runner_up_assignment', 'directly_assigned'):
            if da.get(k) != db.get(k):
                return 'level %r %s: %r vs %r' % (lv, k, da.get(k), db.get(k))
        for k in ('bootstrapping_probability', 'aggregate_probability', 'avg_correlation'):
            x, y = da.get(k), db.get(k)
            if exact or k != 'avg_correlation':
                if exact and x != y:
                    return 'level %r %s: %r vs %r (bitwise)' % (lv, k, x, y)
                if not exact and abs(x - y) > tol:
                    return 'level %r %s: %r vs %r' % (lv, k, x, y)
            elif abs(x - y) > tol:
                return 'level %r %s: %r vs %r' % (lv, k, x, y)
        for k in ('runner_up_probability', 'runner_up_correlation'):
            xa, xb = da.get(k), db.get(k)
            if (xa is None) != (xb is None):
                return 'level %r %s: %r vs %r' % (lv, k, xa, xb)
            if xa is None:
                continue
            if len(xa) != len(xb):
                return 'level %r %s: %r vs %r' % (lv, k, xa, xb)
            for x, y in zip(xa, xb):
                if (exact and x != y) or (not exact and abs(x - y) > tol):
                    return 'level %r %s: %r vs %r' % (lv, k, xa, xb)
    return None


def draw_side_cfg(rng, base, n_cells, same_chunks):
    """run configuration of the other side of a pair: independent chunking/workers/transport/encoding"""
    c = dict(base)
    c['encoding'] = rng.choice(['dense', 'csr', 'csc'])
    c['transport'] = rng.choice(['dir', 'resultdir'])
    c['max_gb'] = rng.choice([1.0, 1e-7])
    if same_chunks:
        eff = common.effective_chunk(n_cells, base['chunk_size'], base['n_processors'])
        same = [p for p in range(1, 7) if common.effective_chunk(n_cells, base['chunk_size'], p) == eff]
        c['n_processors'] = rng.choice(same)
    else:
        c['chunk_size'] = rng.randint(1, n_cells + 3)
        c['n_processors'] = rng.randint(1, 6)
    return c
