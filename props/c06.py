"""
C06 -- a cell's mapping depends only on its own expression vector.

Pairs of simulated mapping runs at bootstrap factor 1: base query versus a row permutation / subset /
superset / duplication under new ids, with chunk size, worker count, transport, encoding and schedule
drawn independently for the two sides.  Joined on cell id.
"""
import numpy as np

from sim import model, world
from sim.kernel import KERNEL
from . import common, mapfam

ID = 'C06'
LEVEL = 'exploration'
QUOTA = {'quick': 900, 'thorough': 8000}
BUDGET = {'quick': 100, 'thorough': 900}
RULE = ('scenario = pair of mapping runs over one world at bootstrap factor 1: (A) base query, (B) its rows permuted, '
        'sub-set, extended with new cells or duplicated under new ids; chunk size, worker count, transport, encoding '
        'and schedule drawn independently per side; an evaluation is one cell compared across the two runs; '
        'non-trivial = the two sides used different chunkings and at least one unambiguous cell was compared; '
        'distinct by hash of (world parameters, variant, both configurations)')
ASSUMPTIONS = ['cells whose arg-max margin along their path is below 1e-9 (ties, all-zero cells) are excluded and counted',
               'assignments, probabilities and runner-up lists must be equal; correlations within 1e-9 (2e-5 for 32-bit '
               'input, whose BLAS rounding depends on the chunk shape)']


def gen(rng, tier, idx):
    wp = world.draw_world_params(rng)
    wp['n_query'] = rng.choice([2, 3, 5, 8, 12, 20, 40])
    W = world.make_world(wp)
    a = common.draw_mapping_cfg(rng, W, bootstrap_factor=1.0)
    a['min_markers'] = max(1, a['min_markers'])
    n = wp['n_query']
    kind = rng.choice(['permute', 'subset', 'superset', 'duplicate'])
    var = {'kind': kind, 'seed': rng.randrange(2 ** 31)}
    n_b = {'permute': n, 'subset': max(1, n // 2), 'superset': n + 3, 'duplicate': 2 * n}[kind]
    b = mapfam.draw_side_cfg(rng, a, n_b, same_chunks=False)
    b['rng_seed'] = rng.randrange(2 ** 31)       # at factor 1 the seed must not matter either
    # declared-normalised queries with a huge dynamic range between cells (e.g. one cell left in
    # linear CPM) are valid input as well; so are 32-bit floats
    norm = {'mode': rng.choice(['raw', 'raw', 'log2CPM', 'log2CPM']), 'dtype': rng.choice(['float64', 'float32']),
            'outlier_p': rng.choice([0.0, 0.15, 0.3]), 'seed': rng.randrange(2 ** 31)}
    a['normalization'] = b['normalization'] = norm['mode']
    a['dtype'] = b['dtype'] = norm['dtype']
    return {'wp': wp, 'a': a, 'b': b, 'variant': var, 'norm': norm, 'sched_a': common.draw_sched(rng),
            'sched_b': common.draw_sched(rng), 'kcfg': common.draw_kernel_cfg(rng)}


def base_query(W, norm):
    if not norm or norm['mode'] == 'raw':
        return W.q_X
    X = model.log2cpm(W.q_X)
    r = np.random.default_rng(norm['seed'])
    for i in range(X.shape[0]):
        if r.random() < norm['outlier_p']:
            X[i] = X[i] * (10.0 ** r.uniform(3.0, 9.0))
    return X.astype(norm['dtype']).astype(float)


def variant_query(W, var, X=None):
    r = np.random.default_rng(var['seed'])
    n = len(W.q_ids)
    X = W.q_X if X is None else X
    ids = list(W.q_ids)
    if var['kind'] == 'permute':
        p = r.permutation(n)
        return X[p], [ids[i] for i in p]
    if var['kind'] == 'subset':
        k = max(1, n // 2)
        p = r.permutation(n)[:k]
        return X[p], [ids[i] for i in p]
    if var['kind'] == 'superset':
        extra = r.poisson(5.0, size=(3, X.shape[1])).astype(float)
        p = r.permutation(n + 3)
        XX = np.vstack([X, extra])
        ii = ids + ['extra_cell_%d' % i for i in range(3)]
        return XX[p], [ii[i] for i in p]
    XX = np.vstack([X, X])
    ii = ids + ['dup_of_%d' % i for i in range(n)]
    p = r.permutation(2 * n)
    return XX[p], [ii[i] for i in p]


def run(scn, sb):
    res = {'violations': [], 'probes': {}, 'faults': {}, 'interleavings': [], 'not_judged': {}, 'evaluations': 0}
    W = world.make_world(scn['wp'])
    common.begin(sb, scn['kcfg'])
    try:
        exp = mapfam.expectations(W, scn['a'])
        if exp['errors'] or exp['unknown_to_reference']:
            res['not_judged']['precondition_not_met'] = 1
            res['nontrivial'] = False
            return res
        Xa = base_query(W, scn.get('norm'))
        ra = mapfam.run_map(sb, W, scn['a'], dict(scn['sched_a']), tag='A', query=Xa)
        Xb, ids_b = variant_query(W, scn['variant'], Xa)
        rb = mapfam.run_map(sb, W, scn['b'], dict(scn['sched_b']), tag='B', query=Xb, q_ids=ids_b)
        common.sched_stats(res, [ra['sched'], rb['sched']])
        if ra['outcome'][0] != 'ok' or rb['outcome'][0] != 'ok':
            if ra['outcome'][0] != rb['outcome'][0]:
                res['violations'].append({'cls': 'one-side-fails',
                                          'detail': 'A: %r  B: %r' % (ra['outcome'], rb['outcome'])})
            else:
                res['not_judged']['both_raised'] = 1
            res['nontrivial'] = False
            return res
        A = {r['cell_id']: r for r in ra['blob']['results']}
        B = {r['cell_id']: r for r in rb['blob']['results']}
        l2 = W.query_log2cpm() if (scn.get('norm') or {}).get('mode', 'raw') == 'raw' else Xa
        row = {c: i for i, c in enumerate(W.q_ids)}
        if (scn.get('norm') or {}).get('mode') == 'log2CPM':
            res['probes']['declared_normalised_pairs'] = 1
        levels = W.tax.hierarchy
        judged = 0
        for cid, rec_b in B.items():
            src = cid
            if cid.startswith('dup_of_'):
                src = W.q_ids[int(cid[len('dup_of_'):])]
            if src not in A:
                continue
            res['evaluations'] += 1
            tol = 1e-9 if (scn.get('norm') or {}).get('dtype', 'float64') == 'float64' else 2e-5
            if mapfam.cell_margin(W, exp, l2[row[src]], W.q_genes, A[src]) < 10 * tol:
                res['not_judged']['ambiguous_cell'] = res['not_judged'].get('ambiguous_cell', 0) + 1
                continue
            judged += 1
            # "up to floating-point rounding": 32-bit input is correlated in 32-bit arithmetic, whose
            # BLAS blocking (hence rounding) depends on the number of rows in the chunk
            diff = mapfam.compare_records(A[src], rec_b, levels, exact=False, tol=tol)
            if diff:
                res['violations'].append({'cls': 'result-depends-on-other-cells',
                                          'detail': 'cell %r (variant %s, as %r): %s; chunking A %r/%r B %r/%r'
                                                    % (src, scn['variant']['kind'], cid, diff,
                                                       scn['a']['chunk_size'], scn['a']['n_processors'],
                                                       scn['b']['chunk_size'], scn['b']['n_processors'])})
                break
        na = len(ra['sched'].procs)
        nb = len(rb['sched'].procs)
        res['probes']['cells_compared'] = judged
        res['nontrivial'] = judged > 0 and (na != nb or scn['a']['chunk_size'] != scn['b']['chunk_size'])
        res['key'] = model.canonical_json([scn['wp'], scn['variant'], scn['a'], scn['b']])
        res['sample'] = {'variant': scn['variant']['kind'], 'chunks_a': na, 'chunks_b': nb, 'cells_compared': judged,
                         'policies': [scn['sched_a']['policy'], scn['sched_b']['policy']]}
        res['ticks'] = KERNEL.n_ticks
        return res
    finally:
        sb.end()


def shrink(scn, violation=None):
    for k in ('sched_a', 'sched_b'):
        if scn[k].get('policy') != 'fifo':
            c = dict(scn)
            c[k] = {'policy': 'fifo', 'seed': 0}
            yield c
    for wp in common.shrink_numbers(scn['wp'], ['n_query', 'n_leaves', 'depth', 'n_genes']):
        c = dict(scn)
        c['wp'] = wp
        yield c
