"""
C19 -- runs leave inputs untouched, scratch space empty, and do not interfere.

Decided by seeded search over HISTORIES of stage runs that share one scratch directory and one
output directory: success after success, success after failure (worker death from the C14 grid,
full disk, parent I/O error), stale files planted under every name pattern the stages use, a
complete run nested inside a yield point of another (concurrent runs), frozen / jumping clock.
After every operation: inputs byte-identical, scratch listing unchanged, new files only at the
requested outputs, and the output equal to a clean-room run of the same operation.
"""
import json
import os
import random
import shutil

import numpy as np

from sim import drivers, harness, kernel, model, world
from sim.kernel import KERNEL
from . import common

ID = 'C19'
LEVEL = 'exploration'
QUOTA = {'quick': 170, 'thorough': 4000}
BUDGET = {'quick': 120, 'thorough': 1200}
RULE = ('scenario = history of up to 6 stage runs (mapping, statistics, reference markers, p-value mask, markers from '
        'p-mask, query markers, validation) over one generated world, sharing scratch and output directories, each '
        'with an optional injected failure / planted stale files / nested concurrent run; an evaluation is one '
        'operation; non-trivial = at least two operations touched the shared directories; distinct by hash of '
        '(world parameters, operation list)')
ASSUMPTIONS = [
    'concurrent runs are modelled by one complete run nested at a yield point of the other (both nesting orders '
    'are generated); alternation of two parents finer than that is not simulated',
    'for stages other than mapping the scratch listing after a FAILED call is recorded, not judged (the property '
    'promises it for mapping only)',
    'a stale file planted at the very output path may legitimately make a stage refuse to run; such outcome '
    'differences are not judged',
]
OPS = ['mapping', 'mapping', 'mapping', 'stats', 'refmarkers', 'pmask', 'pmask_markers', 'qmarkers', 'validate',
       'validate', 'otf', 'otf']
MAPPING_RUNS = ('mapping', 'otf')      # the stages the property calls "a mapping run" (clean after an error too)
STALE = [
    ('d', 'result_buffer_STALE/results_buffer_OLD/0_2_assignment.json', b'[{"cell_id": "ghost"}]'),
    ('d', 'result_buffer_STALE2/0_3_assignment.json', b'[{"cell_id": "ghost2"}]'),
    ('d', 'cell_type_mapper_20200101000000_STALE/file_tracker_OLD/query_old.h5ad', b'junk'),
    ('f', 'query_marker_STALE.h5', b'not hdf5'),
    ('d', 'anndata_iterator_STALE/query.h5ad_as_csr_OLD.h5', b'junk'),
    ('f', 'precomputation_buffer_STALE.h5', b'junk'),
    ('f', 'columns_0_8_STALE.h5', b'junk'),
    ('d', 'find_markers_STALE/unthinned_OLD.h5', b'junk'),
    ('f', 'transpose_0_3_STALE.h5', b'junk'),
    ('d', 'transpositionSTALE/transpose_0_2_OLD.h5', b'junk'),
    ('f', '0_3_assignment.json', b'[{"cell_id": "ghost3"}]'),
    ('d', 'file_tracker_STALE/stats_old.h5', b'junk'),
    ('f', 'tmpSTALE.h5', b'junk'),
]


# ---------------------------------------------------------------------------
# generation
# ---------------------------------------------------------------------------

def gen_op(rng, n_query, allow_nested=True, force_stage=None):
    stage = force_stage or rng.choice(OPS)
    op = {'stage': stage, 'tag': rng.choice(['A', 'B', 'C']), 'sched': common.draw_sched(rng),
          'orphans': rng.choice(['kill', 'drain']), 'n_processors': rng.randint(1, 4),
          'cleanup_yields': rng.choice([0, 0, 0.5, 1.0])}
    if stage == 'mapping':
        op['cfg'] = {'chunk_size': rng.randint(1, max(1, n_query // 2)),
                     'n_runners_up': rng.randint(0, 3), 'bootstrap_iteration': rng.choice([1, 3, 5]),
                     'bootstrap_factor': rng.choice([1.0, 0.6]), 'min_markers': rng.choice([1, 3]),
                     'rng_seed': rng.randrange(2 ** 31), 'cloud_safe': rng.random() < 0.3,
                     'tmp_dir_none': rng.random() < 0.12, 'obsm': rng.random() < 0.15,
                     'clobber_without_key': rng.random() < 0.2,
                     'encoding': rng.choice(['csr', 'csc', 'dense']),
                     'flatten': rng.random() < 0.15}
    elif stage == 'otf':
        # mapping with on-the-fly markers: three pools in one run, its own directory inside the scratch space
        op['cfg'] = {'chunk_size': rng.randint(1, max(1, n_query // 2)), 'n_runners_up': rng.randint(0, 2),
                     'bootstrap_iteration': rng.choice([1, 3]), 'bootstrap_factor': rng.choice([1.0, 0.6]),
                     'min_markers': 1, 'rng_seed': rng.randrange(2 ** 31), 'cloud_safe': rng.random() < 0.3,
                     'encoding': rng.choice(['csr', 'csc', 'dense']), 'flatten': rng.random() < 0.15,
                     'n_valid': rng.choice([5, 10]), 'n_per_utility': rng.randint(1, 3)}
        op['n_processors'] = rng.randint(2, 3)
    elif stage == 'stats':
        op['cfg'] = {'rows_at_a_time': rng.randint(1, 9), 'copy_data_over': rng.random() < 0.4}
    elif stage in ('refmarkers', 'pmask', 'pmask_markers'):
        op['cfg'] = {'n_valid': rng.choice([2, 5]), 'p_th': rng.choice([0.01, 0.5])}
    elif stage == 'qmarkers':
        op['cfg'] = {'n_per_utility': rng.randint(1, 3), 'synthetic_table': rng.random() < 0.5}
    else:
        # 'chain': validate the product of an earlier validation of this history, writing next to it
        # (the *_VALIDATED_<timestamp>.h5ad naming then depends on the clock alone)
        op['cfg'] = {'round_to_int': rng.random() < 0.7, 'use_output_dir': rng.random() < 0.5,
                     'chain': rng.random() < 0.5}
    r = rng.random()
    if r < 0.3:
        op['fault'] = {'kind': 'worker', 'worker': rng.randint(0, 3) if stage != 'otf' else rng.randint(0, 11), 'mode': rng.choice(['kill', 'exit', 'raise']),
                       'point': rng.choice(['before', 'mid', 'after']), 'k': rng.randint(1, 3),
                       'code': rng.choice([1, 2, 3])}
    elif r < 0.36:
        op['fault'] = {'kind': 'diskfull'}
    elif r < 0.50:
        # the k-th write event of the parent, k anywhere between the first and the last write event that
        # the same operation performs when it runs cleanly (so the final output writes are hit too)
        op['fault'] = {'kind': 'parent_io', 'frac': rng.random(), 'errno': rng.choice([28, 5])}
    elif r < 0.60 and stage == 'mapping':
        op['fault'] = {'kind': 'bad_input', 'what': rng.choice(['truncated_query', 'missing_query', 'markers_missing',
                                                                 'hdf5_dir_missing', 'csv_dir_missing',
                                                                 'stats_not_hdf5', 'markers_not_json'])}
    n_stale = rng.choice([0, 0, 1, 3, 6])
    op['stale'] = sorted(rng.sample(range(len(STALE)), n_stale))
    op['stale_output'] = rng.random() < 0.12
    if allow_nested and rng.random() < 0.25:
        # half of the concurrent pairs are two runs of the SAME stage on the same inputs (where name clashes in the
        # shared scratch directory would show), the other half any pair of stages
        op['nested'] = {'at': rng.randint(1, 14),
                        'op': gen_op(rng, n_query, allow_nested=False,
                                     force_stage=stage if rng.random() < 0.5 else None)}
        if op['nested']['op']['tag'] == op['tag'] and op['nested']['op']['stage'] == stage:
            op['nested']['op']['tag'] = op['tag'] + 'n'
    op['clock_jump'] = rng.choice([0.0, 0.0, -86400.0, 1.0e6])
    return op


def gen(rng, tier, idx):
    wp = world.draw_world_params(rng, cells_per_leaf=[2, rng.choice([3, 5])], blocky=False, degenerate=0.0,
                                 n_unlabelled=rng.choice([0, 2]), odd_names=False, shared_names=False,
                                 single_top=False, q_all_zero=False, q_zero_rows=0.0)
    wp['n_leaves'] = rng.choice([3, 4, 5, 6])
    wp['depth'] = rng.choice([1, 2, 3])
    wp['n_genes'] = rng.choice([8, 12, 16])
    wp['n_query'] = rng.choice([4, 6, 9])
    wp['marker_style'] = 'full'
    n_ops = rng.randint(2, 5 if tier == 'quick' else 6)
    kcfg = common.draw_kernel_cfg(rng)
    return {'wp': wp, 'kcfg': kcfg, 'ops': [gen_op(rng, wp['n_query']) for _ in range(n_ops)]}


# ---------------------------------------------------------------------------
# inputs
# ---------------------------------------------------------------------------

def prepare(sb, W):
    ctx = {'W': W}
    # reference h5ad with the taxonomy in obs columns
    cols = W.taxonomy_for_h5ad()
    lab = [l is not None for l in W.ref_labels]
    ctx['ref'] = sb.p('in', 'ref.h5ad')
    world.write_h5ad(ctx['ref'], W.ref_X, W.ref_ids, W.genes, encoding='csr')
    ctx['tax_dict'] = W.tax.to_dict(W.leaf_cells())
    ctx['stats'] = W.write_stats_file(sb.p('in', 'stats.h5'))
    ctx['markers'] = W.write_markers(sb.p('in', 'qm.json'))
    for enc in ('csr', 'csc', 'dense'):
        world.write_h5ad(sb.p('in', 'query_%s.h5ad' % enc), W.q_X, W.q_ids, W.q_genes, encoding=enc)
    world.write_h5ad(sb.p('in', 'query_obsm.h5ad'), W.q_X, W.q_ids, W.q_genes, encoding='csr')
    # deliberately invalid inputs (used by the bad_input failure class of mapping operations)
    with open(sb.p('in', 'query_csr.h5ad'), 'rb') as f:
        qb = f.read()
    with open(sb.p('in', 'query_truncated.h5ad'), 'wb') as f:
        f.write(qb[:max(1, len(qb) // 2)])
    with open(sb.p('in', 'stats_not_hdf5.h5'), 'wb') as f:
        f.write(b'this is not hdf5' * 40)
    with open(sb.p('in', 'markers_not_json.json'), 'w') as f:
        f.write('{"None": ["gene_1", ')
    # validation input: floats that are integers, a layer, Ensembl-looking names plus symbols
    vg = ['ENSMUSG%011d' % i for i in range(len(W.q_genes) - 2)] + ['symA', 'unknownB']
    world.write_h5ad(sb.p('in', 'val.h5ad'), W.q_X + 0.0, W.q_ids, vg[:len(W.q_genes)], encoding='csr',
                     dtype='float32')
    # preparatory stages (not judged) in a private scratch, outputs become inputs
    prep_scratch = sb.p('in', 'prep_scratch')
    os.makedirs(prep_scratch)
    os.makedirs(sb.p('in', 'refm'))
    f = {'policy': 'fifo', 'seed': 0}
    r1, _ = harness.run_call(f, drivers.run_reference_markers, [ctx['stats']], sb.p('in', 'refm'), prep_scratch,
                             n_processors=2, n_valid=5)
    ctx['refm'] = sb.p('in', 'refm', 'reference_markers.h5')
    r2, _ = harness.run_call(f, drivers.run_p_value_mask, ctx['stats'], sb.p('in', 'pmask.h5'), prep_scratch,
                             n_processors=2)
    ctx['pmask'] = sb.p('in', 'pmask.h5')
    # a synthetic reference-marker table as well: sparse, with empty and one-sided pairs
    from . import c12
    ctx['refm_syn'] = c12.write_synthetic_markers(sb.p('in', 'reference_markers_synthetic.h5'), W, ctx['stats'],
                                                  {'seed': len(W.genes) * 7 + len(W.tax.leaves), 'density': 0.15,
                                                   'empty_pairs': 0.3, 'one_sided': 0.6})
    ctx['prep_ok'] = {'refmarkers': r1[0] == 'ok', 'pmask': r2[0] == 'ok'}
    shutil.rmtree(prep_scratch, ignore_errors=True)
    return ctx


# ---------------------------------------------------------------------------
# one operation
# ---------------------------------------------------------------------------

def op_outputs(op, out_dir):
    t = op['tag']
    st = op['stage']
    if st == 'mapping':
        return {'json': os.path.join(out_dir, t + '.json'), 'h5': os.path.join(out_dir, t + '.h5'),
                'csv': os.path.join(out_dir, t + '.csv'), 'log': os.path.join(out_dir, t + '.log')}
    if st == 'otf':
        return {'json': os.path.join(out_dir, t + '_otf.json'), 'csv': os.path.join(out_dir, t + '_otf.csv')}
    if st == 'stats':
        return {'stats': os.path.join(out_dir, t + '_stats.h5')}
    if st == 'refmarkers':
        return {'refm': os.path.join(out_dir, t + '_refm.h5')}
    if st == 'pmask':
        return {'pmask': os.path.join(out_dir, t + '_pmask.h5')}
    if st == 'pmask_markers':
        return {'refm': os.path.join(out_dir, t + '_pm.h5')}
    if st == 'qmarkers':
        return {'qm': os.path.join(out_dir, t + '_qm.json')}
    return {'valid': os.path.join(out_dir, t + '_valid.h5ad')}


def call_op(sb, ctx, op, out_dir, scratch, sched, clean=False):
    """run the real stage; returns (outcome, sched object)"""
    st = op['stage']
    cfg = op['cfg']
    o = op_outputs(op, out_dir)
    npr = op['n_processors']
    if st == 'mapping':
        q = sb.p('in', 'query_obsm.h5ad') if cfg.get('obsm') else sb.p('in', 'query_%s.h5ad' % cfg['encoding'])
        dcfg = drivers.mapping_config(
            q, ctx['stats'], ctx['markers'], out_dir, None if cfg.get('tmp_dir_none') else scratch,
            tag=op['tag'], chunk_size=cfg['chunk_size'], n_processors=max(1, npr),
            n_runners_up=cfg['n_runners_up'], bootstrap_iteration=cfg['bootstrap_iteration'],
            bootstrap_factor=cfg['bootstrap_factor'], min_markers=cfg['min_markers'],
            rng_seed=cfg['rng_seed'], cloud_safe=cfg['cloud_safe'], flatten=cfg['flatten'])
        if cfg.get('obsm'):
            dcfg['obsm_key'] = 'cdm_' + op['tag']
            dcfg['obsm_clobber'] = True
        elif cfg.get('clobber_without_key'):
            # clobbering allowed but no key given: nothing is to be stored in the query file, so it must stay untouched
            dcfg['obsm_clobber'] = True
        bad = (op.get('fault') or {}) if (op.get('fault') or {}).get('kind') == 'bad_input' and not clean else {}
        what = bad.get('what')
        if what == 'truncated_query':
            dcfg['query_path'] = sb.p('in', 'query_truncated.h5ad')
        elif what == 'missing_query':
            dcfg['query_path'] = sb.p('in', 'no_such_query.h5ad')
        elif what == 'markers_missing':
            dcfg['query_markers'] = {'serialized_lookup': sb.p('in', 'no_such_markers.json')}
        elif what == 'markers_not_json':
            dcfg['query_markers'] = {'serialized_lookup': sb.p('in', 'markers_not_json.json')}
        elif what == 'stats_not_hdf5':
            dcfg['precomputed_stats'] = {'path': sb.p('in', 'stats_not_hdf5.h5')}
        elif what == 'hdf5_dir_missing':
            dcfg['hdf5_result_path'] = os.path.join(out_dir, 'no_such_dir', op['tag'] + '.h5')
        elif what == 'csv_dir_missing':
            dcfg['csv_result_path'] = os.path.join(out_dir, 'no_such_dir', op['tag'] + '.csv')
        return harness.run_call(sched, drivers.run_mapping, dcfg)
    if st == 'otf':
        dcfg = drivers.otf_config(
            sb.p('in', 'query_%s.h5ad' % cfg['encoding']), ctx['stats'], out_dir, scratch, tag=op['tag'] + '_otf',
            n_processors=max(2, npr), chunk_size=cfg['chunk_size'], n_runners_up=cfg['n_runners_up'],
            bootstrap_iteration=cfg['bootstrap_iteration'], bootstrap_factor=cfg['bootstrap_factor'],
            min_markers=cfg['min_markers'], rng_seed=cfg['rng_seed'], cloud_safe=cfg['cloud_safe'],
            flatten=cfg['flatten'], n_valid=cfg['n_valid'], n_per_utility=cfg['n_per_utility'])
        return harness.run_call(sched, drivers.run_otf, dcfg)
    if st == 'stats':
        return harness.run_call(sched, drivers.run_precompute, [ctx['ref']], ctx['tax_dict'], o['stats'], scratch,
                                rows_at_a_time=cfg['rows_at_a_time'], n_processors=max(2, npr),
                                copy_data_over=cfg.get('copy_data_over', False))
    if st == 'refmarkers':
        return harness.run_call(sched, drivers.run_find_markers, ctx['stats'], o['refm'], scratch,
                                n_processors=max(2, npr), n_valid=cfg['n_valid'], p_th=cfg['p_th'])
    if st == 'pmask':
        return harness.run_call(sched, drivers.run_p_value_mask, ctx['stats'], o['pmask'], scratch,
                                n_processors=max(2, npr), p_th=cfg['p_th'])
    if st == 'pmask_markers':
        return harness.run_call(sched, drivers.run_markers_from_p_mask, ctx['stats'], ctx['pmask'], o['refm'],
                                scratch, n_processors=max(2, npr), n_valid=cfg['n_valid'])
    if st == 'qmarkers':
        return harness.run_call(sched, drivers.run_query_markers,
                                [ctx['refm_syn'] if cfg.get('synthetic_table') else ctx['refm']], o['qm'], scratch,
                                n_processors=max(2, npr), n_per_utility=cfg['n_per_utility'])
    from cell_type_mapper.validation.validate_h5ad import validate_h5ad
    from cell_type_mapper.gene_id.gene_id_mapper import GeneIdMapper
    mapper = GeneIdMapper(data={'symA': 'ENSMUSG99999999999'})
    src = sb.p('in', 'val.h5ad')
    chained = None
    if cfg.get('chain') and not clean:
        prods = [p_ for p_ in ctx.get('validated_products', []) if os.path.exists(p_)]
        if not prods:
            # no product of an earlier validation yet: make one first (same operation, same simulated second
            # unless the clock plan says otherwise), then validate that product into its own directory
            o0, _ = harness.run_call({'policy': 'fifo', 'seed': 0}, validate_h5ad, h5ad_path=src,
                                     gene_id_mapper=mapper, tmp_dir=scratch, layer='X',
                                     round_to_int=cfg['round_to_int'], output_dir=out_dir)
            if o0[0] == 'ok' and o0[1][0] is not None:
                ctx.setdefault('validated_products', []).append(str(o0[1][0]))
                prods = [str(o0[1][0])]
        if prods:
            chained = prods[-1]
            src = chained
    kw = dict(h5ad_path=src, gene_id_mapper=mapper, tmp_dir=scratch, layer='X',
              round_to_int=cfg['round_to_int'])
    if chained is not None:
        kw['output_dir'] = os.path.dirname(chained)
        sha_before = harness.file_sha(chained)
    elif cfg['use_output_dir']:
        kw['output_dir'] = out_dir
    else:
        kw['valid_h5ad_path'] = o['valid']
    out, s_ = harness.run_call(sched, validate_h5ad, **kw)
    if chained is not None:
        ctx['chain_check'] = (chained, sha_before, os.path.exists(chained),
                              harness.file_sha(chained) if os.path.exists(chained) else None)
    if out[0] == 'ok' and not clean and out[1][0] is not None and '_VALIDATED_' in os.path.basename(str(out[1][0])):
        ctx.setdefault('validated_products', []).append(str(out[1][0]))
    return out, s_


def op_digest(op, out_dir, outcome):
    """canonical digest of what the operation produced (None when it did not succeed)"""
    if outcome[0] != 'ok':
        return None
    o = op_outputs(op, out_dir)
    st = op['stage']
    try:
        if st == 'mapping':
            with open(o['csv']) as f:
                rows = [ln for ln in f.read().splitlines() if not ln.startswith('#')]
            return [harness.json_digest(o['json']), harness.h5_digest(o['h5']), model.canonical_json(rows)]
        if st == 'otf':
            with open(o['csv']) as f:
                rows = [ln for ln in f.read().splitlines() if not ln.startswith('#')]
            return [harness.json_digest(o['json']), model.canonical_json(rows)]
        if st == 'qmarkers':
            return harness.json_digest(o['qm'])
        if st == 'validate':
            path = outcome[1][0] if isinstance(outcome[1], tuple) else outcome[1]
            if path is None:
                return 'no-file'
            import re
            import anndata
            # placeholder names of unmappable genes embed the timestamp (clock-dependent by design):
            # compare X and obs bitwise, var names with the timestamp part normalised
            var = [re.sub(r'^(unmapped_\d+)_.*$', r'\1', str(v))
                   for v in anndata.read_h5ad(str(path), backed='r').var_names]
            return [harness.h5_digest(str(path), skip=('uns', 'var')), var]
        key = [k for k in o][0]
        return harness.h5_digest(o[key])
    except Exception as e:
        return 'digest-error: %r' % (e,)


def plant_stale(sb, op, scratch, out_dir):
    planted = []
    for i in op.get('stale', []):
        kind, rel, content = STALE[i]
        p = os.path.join(scratch, rel)
        os.makedirs(os.path.dirname(p), exist_ok=True)
        with open(p, 'wb') as f:
            f.write(content)
        planted.append(rel)
    if op.get('stale_output'):
        for k, p in op_outputs(op, out_dir).items():
            if not os.path.exists(p):
                with open(p, 'wb') as f:
                    f.write(b'stale output from an earlier run')
    return planted


def input_state(sb):
    st = {}
    for rel, info in sb.listing('in', with_hash=True).items():
        if info[0] == 'f':
            st[rel] = info
    return st


def apply_fault(op, sched, n_events=12):
    f = op.get('fault')
    if not f:
        return
    if f['kind'] == 'worker':
        fl = {'point': f['point'], 'mode': f['mode'], 'code': f.get('code', 3)}
        if f['point'] == 'mid':
            fl['k'] = f['k']
        sched['faults'] = {str(f['worker']): fl}
    elif f['kind'] == 'diskfull':
        KERNEL.statvfs_full = True
    elif f['kind'] == 'parent_io':
        at = f.get('at')
        if at is None:
            at = max(1, int(np.ceil(f['frac'] * max(1, n_events))))
        KERNEL.parent_fault = {'at': KERNEL.parent_write_events + at, 'errno': f['errno']}
        KERNEL.parent_fault_fired = None


def clear_fault():
    KERNEL.statvfs_full = False
    KERNEL.parent_fault = None


def run(scn, sb):
    res = {'violations': [], 'probes': {}, 'faults': {}, 'interleavings': [], 'not_judged': {},
           'evaluations': 0}
    viol = res['violations']
    pr = res['probes']
    W = world.make_world(scn['wp'])
    common.begin(sb, scn['kcfg'])
    try:
        ctx = prepare(sb, W)
        out_dir = sb.p('out')
        scratch = sb.p('scratch')
        clean_root = os.path.join(sb.base, 'clean')
        clean_cache = {}
        touched = 0
        op_summ = []

        def clean_digest(op):
            """the same operation alone in fresh directories, fault-free, FIFO"""
            key = model.canonical_json([op['stage'], op['tag'], op['cfg'], op['n_processors']])
            if key not in clean_cache:
                shutil.rmtree(clean_root, ignore_errors=True)
                os.makedirs(os.path.join(clean_root, 'out'))
                os.makedirs(os.path.join(clean_root, 'scratch'))
                st_before = sb.listing('systmp')
                w0 = KERNEL.parent_write_events
                o, _ = call_op(sb, ctx, op, os.path.join(clean_root, 'out'), os.path.join(clean_root, 'scratch'),
                               {'policy': 'fifo', 'seed': 0}, clean=True)
                clean_cache[key] = (o[0], op_digest(op, os.path.join(clean_root, 'out'), o),
                                    o[1] if o[0] == 'raised' else None, KERNEL.parent_write_events - w0)
                shutil.rmtree(clean_root, ignore_errors=True)
                # a clean-room run must not pollute the shared system temp dir of the history
                for rel in set(sb.listing('systmp')) - set(st_before):
                    pth = sb.p('systmp', rel.rstrip('/'))
                    if os.path.isdir(pth):
                        shutil.rmtree(pth, ignore_errors=True)
                    elif os.path.exists(pth):
                        os.unlink(pth)
            return clean_cache[key]

        for i, op in enumerate(scn['ops']):
            if op['stage'] in ('qmarkers',) and not ctx['prep_ok']['refmarkers'] and not op['cfg'].get('synthetic_table'):
                res['not_judged']['prerequisite_stage_failed'] = res['not_judged'].get('prerequisite_stage_failed', 0) + 1
                continue
            if op['stage'] == 'pmask_markers' and not ctx['prep_ok']['pmask']:
                res['not_judged']['prerequisite_stage_failed'] = res['not_judged'].get('prerequisite_stage_failed', 0) + 1
                continue
            ops_here = [op] + ([op['nested']['op']] if op.get('nested') else [])
            cleans = [clean_digest(o2) for o2 in ops_here]
            KERNEL.clock += op.get('clock_jump', 0.0)
            planted = plant_stale(sb, op, scratch, out_dir)
            in_before = input_state(sb)
            scratch_before = sb.listing('scratch')
            all_before = sb.listing()
            # pre-existing files at an output path are removed unless the history wants them stale
            sched = dict(op['sched'])
            sched['orphans'] = op.get('orphans', 'kill')
            sched['cleanup_yields'] = op.get('cleanup_yields', 0)
            nested_result = {}
            if op.get('nested'):
                nop = op['nested']['op']
                sched['nested'] = {'at': op['nested']['at']}

                def cb(nest, nop=nop):
                    ns = dict(nop['sched'])
                    ns['orphans'] = nop.get('orphans', 'kill')
                    saved = (KERNEL.statvfs_full, KERNEL.parent_fault)
                    clear_fault()
                    try:
                        nested_result['out'], nested_result['sched'] = call_op(sb, ctx, nop, out_dir, scratch, ns)
                    finally:
                        KERNEL.statvfs_full, KERNEL.parent_fault = saved
                KERNEL.nested_cb = cb
            ctx.pop('chain_check', None)
            apply_fault(op, sched, n_events=cleans[0][3])
            try:
                out, s = call_op(sb, ctx, op, out_dir, scratch, sched)
            finally:
                fired_parent = KERNEL.parent_fault_fired
                clear_fault()
                KERNEL.nested_cb = None
            res['evaluations'] += 1
            touched += 1
            common.sched_stats(res, [s])
            # ---- what fired
            f = op.get('fault')
            if f:
                if f['kind'] == 'worker':
                    tr = kernel.read_child_traces(sb.trace, s.call_id)
                    fired = any(r.get('ev') == 'fault' for recs in tr.values() for r in recs) or bool(s.fired)
                    if fired:
                        res['faults']['worker_' + f['mode']] = res['faults'].get('worker_' + f['mode'], 0) + 1
                elif f['kind'] == 'diskfull' and KERNEL.statvfs_calls:
                    res['faults']['disk_full_probe_answered'] = res['faults'].get('disk_full_probe_answered', 0) + 1
                elif f['kind'] == 'parent_io' and fired_parent:
                    res['faults']['parent_io_error'] = res['faults'].get('parent_io_error', 0) + 1
                    late = 'late' if f.get('frac', 0) > 0.7 else 'early'
                    res['faults']['parent_io_error_' + late] = res['faults'].get('parent_io_error_' + late, 0) + 1
                elif f['kind'] == 'bad_input' and out[0] == 'raised':
                    res['faults']['invalid_input:' + f['what']] = res['faults'].get('invalid_input:' + f['what'], 0) + 1
            if planted:
                res['faults']['stale_files_planted'] = res['faults'].get('stale_files_planted', 0) + len(planted)
            if op.get('stale_output'):
                res['faults']['stale_output_planted'] = res['faults'].get('stale_output_planted', 0) + 1
            if nested_result:
                pr['nested_runs'] = pr.get('nested_runs', 0) + 1
                res['evaluations'] += 1
                touched += 1
            if s.cleanup_yields:
                pr['orphans_ran_during_cleanup_yields'] = pr.get('orphans_ran_during_cleanup_yields', 0) + s.cleanup_yields
            if getattr(s, 'n_orphans', 0):
                pr['orphans_' + sched['orphans']] = pr.get('orphans_' + sched['orphans'], 0) + s.n_orphans
            desc = 'op %d %s(%s)%s -> %s' % (i, op['stage'], op['tag'],
                                             ' fault=%s' % json.dumps(f) if f else '', out[0])
            op_summ.append(desc + ((': ' + out[1][:80]) if out[0] == 'raised' else ''))
            # ---- (1) inputs untouched
            cc = ctx.pop('chain_check', None)
            if cc is not None:
                pr['validation_of_an_earlier_product'] = pr.get('validation_of_an_earlier_product', 0) + 1
                cpath, csha, exists_after, sha_after = cc
                if not exists_after:
                    viol.append({'cls': 'input-deleted', 'detail': '%s: the input %s (product of an earlier validation, '
                                 'validated again into its own directory) no longer exists'
                                 % (desc, os.path.basename(cpath))})
                elif sha_after != csha:
                    viol.append({'cls': 'input-modified', 'detail': '%s: the input %s (product of an earlier validation) '
                                 'was overwritten' % (desc, os.path.basename(cpath))})
            in_after = input_state(sb)
            for rel in sorted(set(in_before) | set(in_after)):
                a, b = in_before.get(rel), in_after.get(rel)
                if a == b:
                    continue
                if rel == 'query_obsm.h5ad' and any(o2['stage'] == 'mapping' and o2['cfg'].get('obsm')
                                                    for o2 in ops_here):
                    pr['query_written_on_request'] = pr.get('query_written_on_request', 0) + 1
                    continue
                viol.append({'cls': 'input-modified',
                             'detail': '%s: input %s changed from %r to %r' % (desc, rel, a, b)})
            # ---- (2) scratch listing unchanged
            scratch_after = sb.listing('scratch')
            extra = sorted(set(scratch_after) - set(scratch_before))
            gone = sorted(set(scratch_before) - set(scratch_after))
            judged = out[0] == 'ok' or op['stage'] in MAPPING_RUNS
            if nested_result and not (nested_result['out'][0] == 'ok' or op['nested']['op']['stage'] in MAPPING_RUNS):
                judged = False
            if extra or gone:
                if judged:
                    cls = 'scratch-leftover' if extra else 'scratch-foreign-file-removed'
                    which = 'after-failure' if out[0] != 'ok' else 'after-success'
                    viol.append({'cls': '%s-%s-%s' % (cls, op['stage'], which),
                                 'detail': '%s: new in scratch %r, removed from scratch %r' % (desc, extra[:6], gone[:6]),
                                 'leftover_prefix': sorted(set(e.split('_')[0] for e in extra))})
                else:
                    res['not_judged']['scratch_after_failed_non_mapping_stage'] = \
                        res['not_judged'].get('scratch_after_failed_non_mapping_stage', 0) + 1
                # later operations start from a clean slate
                for rel in extra:
                    pth = os.path.join(scratch, rel.rstrip('/'))
                    if os.path.isdir(pth):
                        shutil.rmtree(pth, ignore_errors=True)
                    elif os.path.exists(pth):
                        os.unlink(pth)
            # ---- (3) new files only at requested outputs
            all_after = sb.listing()
            allowed = set()
            for o2 in ops_here:
                for pth in op_outputs(o2, out_dir).values():
                    allowed.add(os.path.relpath(pth, sb.base))
                if o2['stage'] == 'validate' and (o2['cfg']['use_output_dir'] or o2['cfg'].get('chain')):
                    allowed.add('VALIDATE_DIR')
            scr_rel = os.path.relpath(scratch, sb.base) + os.sep
            for rel in sorted(set(all_after) - set(all_before)):
                if rel.startswith(scr_rel) or rel.startswith('clean' + os.sep):
                    continue
                if rel in allowed:
                    continue
                if 'VALIDATE_DIR' in allowed and rel.startswith(os.path.relpath(out_dir, sb.base) + os.sep) \
                        and '_VALIDATED_' in rel and rel.endswith('.h5ad'):
                    continue
                where = 'system-temp' if rel.startswith(os.path.relpath(sb.dirs['systmp'], sb.base)) else 'elsewhere'
                # "creates files only at the requested output locations" carries no success-only qualifier (unlike the
                # scratch clause): a stray file outside scratch and outside the requested outputs is judged after a
                # failed run of any stage as well
                if True:      # (was: only when the scratch clause is judged)
                    viol.append({'cls': 'file-created-outside-outputs-%s' % where,
                                 'detail': '%s: unexpected new path %s' % (desc, rel),
                                 'name_prefix': os.path.basename(rel.rstrip('/')).split('_')[0]})
                pth = os.path.join(sb.base, rel.rstrip('/'))
                if where == 'system-temp':
                    if os.path.isdir(pth):
                        shutil.rmtree(pth, ignore_errors=True)
                    elif os.path.exists(pth):
                        os.unlink(pth)
            # ---- (4) clean-room differential
            for o2, cl, (oc, sc) in zip(ops_here, cleans,
                                        [(out, s)] + ([(nested_result['out'], nested_result['sched'])]
                                                      if nested_result else [])):
                if o2['stage'] == 'validate' and o2['cfg'].get('chain'):
                    continue      # validates a product of this history, not the fixed input: no clean-room twin
                faulted = (bool(o2.get('fault')) and o2 is op) or (o2.get('fault') or {}).get('kind') == 'bad_input'
                if oc[0] == 'ok':
                    dg = op_digest(o2, out_dir, oc)
                    if cl[0] == 'ok' and dg != cl[1]:
                        viol.append({'cls': 'result-differs-from-clean-room-%s' % o2['stage'],
                                     'detail': '%s: digest %r, clean-room digest %r (stale=%r nested=%r)'
                                               % (desc, dg, cl[1], planted, bool(nested_result))})
                    elif cl[0] != 'ok':
                        viol.append({'cls': 'succeeds-only-in-shared-directories',
                                     'detail': '%s: clean-room run raised %r' % (desc, cl[2])})
                    else:
                        pr['clean_room_matches'] = pr.get('clean_room_matches', 0) + 1
                elif cl[0] == 'ok' and not faulted:
                    if o2.get('stale_output'):
                        res['not_judged']['refused_stale_output'] = res['not_judged'].get('refused_stale_output', 0) + 1
                    elif o2 is not op and op.get('fault') and op['fault']['kind'] in ('diskfull', 'parent_io'):
                        pass
                    else:
                        viol.append({'cls': 'fails-only-in-shared-directories-%s' % o2['stage'],
                                     'detail': '%s: raised %r but the same operation succeeds alone in fresh '
                                               'directories (stale=%r nested=%r)'
                                               % (desc, oc[1][:300], planted, bool(nested_result))})
        res['nontrivial'] = touched >= 2
        res['key'] = model.canonical_json([scn['wp'], scn['ops']])
        res['sample'] = {'history': op_summ}
        res['ticks'] = KERNEL.n_ticks
        return res
    finally:
        clear_fault()
        sb.end()


def shrink(scn, violation=None):
    ops = scn['ops']
    if len(ops) > 1:
        for i in range(len(ops)):
            c = dict(scn)
            c['ops'] = ops[:i] + ops[i + 1:]
            yield c
    for i, op in enumerate(ops):
        for key in ('nested', 'fault'):
            if op.get(key):
                c = dict(scn)
                no = dict(op)
                no.pop(key)
                c['ops'] = ops[:i] + [no] + ops[i + 1:]
                yield c
        if op.get('stale'):
            c = dict(scn)
            c['ops'] = ops[:i] + [dict(op, stale=[])] + ops[i + 1:]
            yield c
        if op['sched'].get('policy') != 'fifo':
            c = dict(scn)
            c['ops'] = ops[:i] + [dict(op, sched={'policy': 'fifo', 'seed': 0})] + ops[i + 1:]
            yield c
    for wp in common.shrink_numbers(scn['wp'], ['n_query', 'n_leaves', 'depth', 'n_genes']):
        c = dict(scn)
        c['wp'] = wp
        yield c
