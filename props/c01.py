"""
C01 -- every query cell gets one complete, ordered, tree-consistent assignment.

Invariants over simulated mapping runs in which chunk size, worker count, result transport,
completion order, pre-emption, temp names and listing order are all drawn per run.
"""
from sim import model, world
from sim.kernel import KERNEL
from . import common, mapfam

ID = 'C01'
LEVEL = 'exploration'
QUOTA = {'quick': 1700, 'thorough': 16000}
BUDGET = {'quick': 100, 'thorough': 900}
RULE = ('scenario = generated world (taxonomy depth 1-4 incl. single-node top levels and single-child chains, '
        'marker table usable at the root, query of 1-30 cells in one of three encodings) x run configuration '
        '(flatten / drop_level / chunk size / workers / runners-up / transport) x one seeded schedule; '
        'non-trivial = the run used >= 2 chunks or a reduced taxonomy or a single-child branch; distinct by hash of '
        '(world parameters, configuration)')
ASSUMPTIONS = ['the taxonomy oracle is the generator\'s own parent table (sim/model.py), not TaxonomyTree',
               'min_markers >= 1; marker tables only name reference genes (error clauses belong to C08)']
ORACLE = 'C01'


def gen(rng, tier, idx):
    wp = world.draw_world_params(rng)
    if rng.random() < 0.06:
        wp['gene_style'] = 'ensembl'      # versioned Ensembl ids in the query file, map_to_ensembl=True
    W = world.make_world(wp)
    mcfg = common.draw_mapping_cfg(rng, W)
    mcfg['min_markers'] = max(1, mcfg['min_markers'])
    return {'wp': wp, 'cfg': mcfg, 'sched': common.draw_sched(rng), 'kcfg': common.draw_kernel_cfg(rng)}


def run(scn, sb):
    return mapfam.single_run(scn, sb, ORACLE)


def shrink(scn, violation=None):
    return mapfam.shrink_single(scn)
