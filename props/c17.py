"""
C17 -- flattening or dropping a level equals mapping on the reduced taxonomy.

Pairs with a common seed and independent schedules: (A) full statistics + drop_level=L versus (B) a
statistics file written directly from the model with a taxonomy that never had L, same marker table;
(A') flatten=True versus (B') a one-level taxonomy of the leaves with the union marker list; an unknown
level versus no drop.  Weak fit (the pairing is the oracle; the simulator supplies two independent
executions).
"""
import numpy as np

from sim import model, world
from sim.kernel import KERNEL
from . import common, mapfam

ID = 'C17'
LEVEL = 'exploration'
QUOTA = {'quick': 1300, 'thorough': 8000}
BUDGET = {'quick': 100, 'thorough': 900}
RULE = ('scenario = pair of mapping runs with a common seed and the same chunks: drop_level=L vs a reference whose '
        'taxonomy never had L (every non-leaf L of every generated tree is reachable), flatten vs a one-level taxonomy '
        'with the union marker list, or an unknown level vs no drop; schedules, transports and encodings differ between '
        'the sides; an evaluation is one cell compared; non-trivial = the taxonomy has >= 2 levels and >= 1 cell was '
        'compared; distinct by hash of (world parameters, mode, level, configurations)')
ASSUMPTIONS = ['weak fit (see DESIGN section 2)',
               'the B side is written directly from the in-memory model (statistics file with the reduced taxonomy)']


def gen(rng, tier, idx):
    wp = world.draw_world_params(rng)
    wp['depth'] = rng.choice([2, 3, 3, 4, 4, 5])
    wp['n_query'] = rng.choice([1, 2, 3, 5, 8, 12])
    starved = rng.random() < 0.3
    if starved:
        # most parents list too few markers of their own: the ancestor fallback has to walk the (reduced) tree
        wp['m_small'] = 0.9
        wp['m_missing'] = rng.choice([0.0, 0.3])
    W = world.make_world(wp)
    mode = rng.choice(['drop', 'drop', 'drop', 'flatten', 'flatten', 'unknown', 'flatten_drop'])
    # flatten_drop: both options at once -- the result is the flattened one, the dropped level's marker lists still
    # belong to the union
    level = rng.choice(W.tax.hierarchy[:-1]) if mode in ('drop', 'flatten_drop') else None
    a = common.draw_mapping_cfg(rng, W, drop_level=None, flatten=False)
    a['min_markers'] = max(1, a['min_markers'])
    if starved:
        a['min_markers'] = rng.choice([3, 5, 10])
    if mode in ('drop', 'flatten_drop') and len(W.tax.hierarchy) >= 4 and rng.random() < 0.6:
        level = rng.choice(W.tax.hierarchy[1:-2])      # a middle level whose child level is not the leaf level
    if mode == 'drop':
        a['drop_level'] = level
    elif mode == 'flatten':
        a['flatten'] = True
    elif mode == 'flatten_drop':
        a['flatten'] = True
        a['drop_level'] = level
    else:
        a['drop_level'] = 'no_such_level'
    b = mapfam.draw_side_cfg(rng, a, wp['n_query'], same_chunks=True)
    b['drop_level'] = None
    b['flatten'] = False
    return {'wp': wp, 'mode': mode, 'level': level, 'a': a, 'b': b, 'sched_a': common.draw_sched(rng),
            'sched_b': common.draw_sched(rng), 'kcfg': common.draw_kernel_cfg(rng)}


def run(scn, sb):
    res = {'violations': [], 'probes': {}, 'faults': {}, 'interleavings': [], 'not_judged': {}, 'evaluations': 0}
    W = world.make_world(scn['wp'])
    mode = scn['mode']
    common.begin(sb, scn['kcfg'])
    try:
        exp = mapfam.expectations(W, scn['a'])
        if exp['errors'] or exp['unknown_to_reference']:
            res['not_judged']['precondition_not_met'] = 1
            res['nontrivial'] = False
            return res
        ra = mapfam.run_map(sb, W, scn['a'], dict(scn['sched_a']), tag='A')
        # ---- side B: a reference that never had the level
        if mode == 'drop':
            tax_b = W.tax.drop_level(scn['level'])
            markers_b = None
        elif mode in ('flatten', 'flatten_drop'):
            tax_b = W.tax.flatten()
            markers_b = {'None': sorted(set(g for v in W.markers.values() for g in v))}
        else:
            tax_b = W.tax
            markers_b = None
        rb = mapfam.run_map(sb, W, scn['b'], dict(scn['sched_b']), tag='B', stats_kw={'tax': tax_b},
                            markers=markers_b)
        common.sched_stats(res, [ra['sched'], rb['sched']])
        if ra['outcome'][0] != 'ok' or rb['outcome'][0] != 'ok':
            if ra['outcome'][0] != rb['outcome'][0]:
                res['violations'].append({'cls': 'one-side-fails-%s' % mode,
                                          'detail': 'A (%s %r): %r   B (reduced reference): %r'
                                                    % (mode, scn['level'], ra['outcome'], rb['outcome'])})
            else:
                res['not_judged']['both_raised'] = 1
            res['nontrivial'] = False
            return res
        A = ra['blob']['results']
        B = rb['blob']['results']
        tax = W.tax
        shared = tax_b.hierarchy
        judged = 0
        for x, y in zip(A, B):
            res['evaluations'] += 1
            judged += 1
            diff = 'cell ids differ' if x['cell_id'] != y['cell_id'] else None
            if diff is None:
                xx = {lv: {k: v for k, v in x[lv].items()} for lv in shared}
                diff = mapfam.compare_records(xx, y, shared, exact=True)
            if diff is None:
                # levels absent from B must be the ancestors of the finer assignment
                for li, lv in enumerate(tax.hierarchy):
                    if lv in shared:
                        continue
                    finer = [l2 for l2 in tax.hierarchy[li + 1:] if l2 in shared][0]
                    want = tax.ancestor(finer, x[finer]['assignment'], lv)
                    if x[lv]['assignment'] != want:
                        diff = 'level %r is %r, ancestor of %r at %r is %r' % (lv, x[lv]['assignment'],
                                                                               x[finer]['assignment'], finer, want)
                        break
            if diff:
                res['violations'].append({'cls': 'differs-from-reduced-taxonomy-%s' % mode,
                                          'detail': 'cell %r (%s %r): %s' % (x['cell_id'], mode, scn['level'], diff)})
                break
        res['probes']['cells_compared'] = judged
        res['probes']['mode_' + mode] = 1
        if mode == 'drop':
            pos = 'top' if scn['level'] == tax.hierarchy[0] else 'middle'
            res['probes']['dropped_%s_level' % pos] = 1
        res['nontrivial'] = judged > 0 and len(tax.hierarchy) >= 2
        res['key'] = model.canonical_json([scn['wp'], mode, scn['level'], scn['a'], scn['b']])
        res['sample'] = {'mode': mode, 'level': scn['level'], 'hierarchy': tax.hierarchy, 'cells_compared': judged,
                         'factor': scn['a']['bootstrap_factor']}
        res['ticks'] = KERNEL.n_ticks
        return res
    finally:
        sb.end()


def shrink(scn, violation=None):
    for k in ('sched_a', 'sched_b'):
        if scn[k].get('policy') != 'fifo':
            c = dict(scn)
            c[k] = {'policy': 'fifo', 'seed': 0}
            yield c
    for wp in common.shrink_numbers(scn['wp'], ['n_query', 'n_leaves', 'n_genes']):
        c = dict(scn)
        c['wp'] = wp
        yield c
