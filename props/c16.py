"""
C16 -- validation rewrites identifiers and integers without altering the data.

validate_h5ad on generated files, each run once cleanly (judged against a rounding / renaming model)
and then once per parent-side write event with an injected I/O error at exactly that event -- k is
ENUMERATED over all write events of the run (HDF5 opens for writing, dataset creations and writes,
temp-file creations, copies).  At every failure point and on success the input file must be
byte-identical and the scratch directory empty.
"""
import json
import os
import re
import shutil

import numpy as np

from sim import drivers, harness, kernel, model, world
from sim.kernel import KERNEL
from . import common

ID = 'C16'
LEVEL = 'fault_enumeration'
QUOTA = {'quick': 140, 'thorough': 2000}
BUDGET = {'quick': 85, 'thorough': 1200}
RULE = ('scenario = generated h5ad (integers stored as floats, non-integers, negatives, values at 255.5 / 65535.5 / '
        'int boundaries; dense/CSR/CSC; HDF5 chunk layouts; X or a layer; Ensembl ids with and without version, real '
        'mouse symbols, unknown names; rounding on/off); validated once cleanly and once per parent write event with an '
        'I/O error injected at that event (all k enumerated); an evaluation is one run; non-trivial = the fault fired at '
        'its event (or the clean run was judged); distinct by (file parameters, k)')
ASSUMPTIONS = ['the fault grid (every write event of the run) is complete per file; files are sampled',
               'when rounding is requested and the stored values are already integral, leaving them in their float type is '
               'accepted (the property\'s "moved by at most one half to an integer"); otherwise an integer dtype is required',
               'placeholder names of unmappable genes embed a timestamp; only their uniqueness and count are judged']
ENS = re.compile(r'ENS[A-Z]+[0-9]+(\.[0-9]+)?')
_SYMS = {}


def mouse_table():
    if 'm' not in _SYMS:
        from cell_type_mapper.data.mouse_gene_id_lookup import mouse_gene_id_lookup
        _SYMS['m'] = mouse_gene_id_lookup
    return _SYMS['m']


def gen(rng, tier, idx):
    n_rows = rng.choice([1, 2, 4, 7])
    n_cols = rng.choice([2, 3, 5, 8])
    f = {'seed': rng.randrange(2 ** 31), 'n_rows': n_rows, 'n_cols': n_cols,
         'values': rng.choice(['int_as_float', 'non_integer', 'negative', 'boundary_255', 'boundary_65535',
                               'boundary_int32', 'already_int', 'half_values', 'neg_half_min', 'boundary_neg_128',
                               'boundary_neg_32768', 'boundary_127', 'boundary_neg_int32']),
         'encoding': rng.choice(['dense', 'csr', 'csc']), 'layer': rng.choice([None, None, 'raw_counts']),
         'h5_chunks': rng.choice([None, [1, 1], [3, 2], [4, 3], [1000, 1000]]),
         'genes': rng.choice(['ensembl', 'ensembl_versioned', 'symbols', 'mixed', 'mixed', 'collision',
                              'duplicate', 'empty_name', 'dotted_symbols', 'mixed_dotted']),
         'dup_cells': rng.random() < 0.08, 'density': rng.choice([0.3, 0.7, 1.0]),
         'boundary_last': rng.random() < 0.5,
         'obs_cols': rng.random() < 0.6}
    return {'file': f, 'round_to_int': rng.random() < 0.75, 'explicit_mapper': rng.random() < 0.5,
            'same_basename': rng.random() < 0.3,
            'use_output_dir': rng.random() < 0.4, 'kcfg': common.draw_kernel_cfg(rng), 'enumerate': True}


def make_file(f):
    r = np.random.default_rng(f['seed'])
    n, c = f['n_rows'], f['n_cols']
    mask = r.random((n, c)) < f['density']
    kind = f['values']
    if kind == 'int_as_float':
        V = r.integers(0, 500, (n, c)).astype(float)
    elif kind == 'non_integer':
        V = r.random((n, c)) * 300
    elif kind == 'negative':
        V = r.random((n, c)) * 300 - 150
    elif kind == 'boundary_255':
        V = r.random((n, c)) * 200
        V[0, 0] = 255.5
    elif kind == 'boundary_65535':
        V = r.random((n, c)) * 200
        V[0, 0] = 65535.5
    elif kind == 'boundary_int32':
        V = r.random((n, c)) * 200
        V[0, 0] = 2147483647.5
        V[0, 1] = -3.5
    elif kind == 'half_values':
        V = r.integers(0, 300, (n, c)) + 0.5
    elif kind in ('neg_half_min', 'boundary_neg_128', 'boundary_neg_32768', 'boundary_127', 'boundary_neg_int32'):
        # ties exactly at the edge of an integer type, on the negative side as well
        V = r.random((n, c)) * 90
        mask[0, 0] = True
        V[0, 0] = {'neg_half_min': -0.5, 'boundary_neg_128': -128.5, 'boundary_neg_32768': -32768.5,
                   'boundary_127': 127.5, 'boundary_neg_int32': -2147483648.5}[kind]
        if kind == 'boundary_127' and c > 1:
            mask[0, 1] = True
            V[0, 1] = -7.25
    else:
        V = r.integers(0, 70000, (n, c)).astype(float)
    V = np.where(mask, V, 0.0)
    if kind in ('boundary_255', 'boundary_65535', 'boundary_int32'):
        V[0, 0] = {'boundary_255': 255.5, 'boundary_65535': 65535.5, 'boundary_int32': 2147483647.5}[kind]
    dtype = 'int64' if kind == 'already_int' else 'float64'
    tab = mouse_table()
    syms = sorted(k for k in list(tab)[:4000] if not ENS.fullmatch(k))[:400]
    real_ens = sorted(set(v for v in list(tab.values())[:6000] if ENS.fullmatch(v) and '.' not in v))[:400]
    # known symbols that themselves contain a '.' (Tex19.1, H2-M10.2, ...): only the OUTPUT may be clipped
    dotted = sorted(k for k in tab if '.' in k and not ENS.fullmatch(k) and ENS.fullmatch(tab[k]))
    sym_targets = set(tab[k2] for k2 in syms) | set(tab[k2] for k2 in dotted)
    real_ens = [e for e in real_ens if e not in sym_targets] or real_ens
    g = f['genes']
    genes = []
    for i in range(c):
        if g == 'ensembl':
            genes.append(real_ens[(f['seed'] + i) % len(real_ens)])
        elif g == 'ensembl_versioned':
            genes.append('%s.%d' % (real_ens[(f['seed'] + i) % len(real_ens)], 1 + i % 3))
        elif g == 'symbols':
            genes.append(syms[(f['seed'] + 7 * i) % len(syms)])
        elif g == 'dotted_symbols' and dotted:
            genes.append(dotted[(f['seed'] + 5 * i) % len(dotted)])
        elif g == 'mixed_dotted' and dotted and i % 2 == 0:
            genes.append(dotted[(f['seed'] + 5 * i) % len(dotted)])
        else:
            k = i % 4
            genes.append([real_ens[(f['seed'] + i) % len(real_ens)], '%s.2' % real_ens[(f['seed'] + i) % len(real_ens)],
                          syms[(f['seed'] + 7 * i) % len(syms)], 'totally_unknown_%d' % i][k])
    if g == 'collision' and c >= 2:
        genes[1] = genes[0] + '.7' if ENS.fullmatch(genes[0]) and '.' not in genes[0] else genes[1]
        if genes[1] == genes[0] or not genes[1].startswith(genes[0]):
            genes[0] = real_ens[0]
            genes[1] = real_ens[0] + '.3'
    if g == 'duplicate' and c >= 2:
        genes[1] = genes[0]
    if g == 'empty_name':
        genes[-1] = ''
    ids = ['cell_%d' % i for i in range(n)]
    if f['dup_cells'] and n >= 2:
        ids[1] = ids[0]
    if f.get('boundary_last') and V.size >= 2:
        # the value that decides the integer type sits in the LAST stored element instead of the first (the min/max
        # scan of a chunked sparse array reads the data in blocks; a short final block must be read as well)
        V[n - 1, c - 1], V[0, 0] = V[0, 0], V[n - 1, c - 1]
    return V.astype(dtype), ids, genes


def model_names(genes):
    """(mapped names with placeholders as None, n_unmapped, rejected?)"""
    tab = mouse_table()
    out = []
    n_un = 0
    for gname in genes:
        if ENS.fullmatch(gname):
            out.append(gname.split('.')[0])
        elif gname in tab:
            out.append(tab[gname].split('.')[0])
        else:
            out.append(None)
            n_un += 1
    return out, n_un


def call_validate(sb, scn, src, out_dir, tag):
    from cell_type_mapper.validation.validate_h5ad import validate_h5ad
    from cell_type_mapper.gene_id.gene_id_mapper import GeneIdMapper
    kw = dict(h5ad_path=src, gene_id_mapper=GeneIdMapper.from_mouse() if scn['explicit_mapper'] else None,
              tmp_dir=sb.p('scratch'), layer=scn['file']['layer'] or 'X', round_to_int=scn['round_to_int'],
              expected_max=None)
    if scn['use_output_dir']:
        kw['output_dir'] = out_dir
    else:
        # now and then the output carries the INPUT's file name, in another directory (raw/x.h5ad -> valid/x.h5ad)
        name = os.path.basename(src) if scn.get('same_basename') else 'valid_%s.h5ad' % tag
        kw['valid_h5ad_path'] = os.path.join(out_dir, name)
    return drivers.outcome_of(validate_h5ad, **kw)


def judge_clean(scn, V, ids, genes, out, src):
    import anndata
    bad = []
    f = scn['file']
    names, n_un = model_names(genes)
    known = [x for x in names if x is not None]
    must_reject = None
    if len(set(ids)) != len(ids):
        must_reject = 'duplicate cell identifiers'
    elif len(set(genes)) != len(genes):
        must_reject = 'duplicate gene names'
    elif '' in genes:
        must_reject = 'empty gene name'
    elif len(set(known)) != len(known):
        must_reject = 'two genes mapping to one identifier'
    if must_reject:
        if out[0] != 'raised':
            bad.append(('not-rejected', '%s: validation returned %r' % (must_reject, out[1])))
        return bad, 'rejected'
    all_unmappable = n_un == len(genes) or (n_un > 0 and n_un == sum(1 for g in genes if not ENS.fullmatch(g))
                                            and not scn['explicit_mapper']
                                            and all(not ENS.fullmatch(g) for g in genes))
    if out[0] != 'ok':
        if n_un == len(genes):
            return bad, 'no-gene-mappable'
        bad.append(('validation-raises', out[1][:300]))
        return bad, 'raised'
    path, _warn = out[1]
    needs_names = any(a != b for a, b in zip(names, genes))
    integral = bool(np.all(V == np.round(V)))
    needs_round = scn['round_to_int'] and not integral
    needs_file = needs_names or needs_round or f['layer'] is not None
    if not needs_file:
        if path is not None:
            bad.append(('needless-file', 'no change was needed but %s was written' % os.path.basename(str(path))))
        return bad, 'no-change'
    if path is None or not os.path.exists(str(path)):
        bad.append(('no-file', 'a change was needed (names %r, rounding %r, layer %r) but no file was written'
                    % (needs_names, needs_round, f['layer'])))
        return bad, 'changed'
    a = anndata.read_h5ad(str(path))
    orig = anndata.read_h5ad(src)
    if list(a.obs_names) != ids:
        bad.append(('cells-changed', 'cells %r, expected %r' % (list(a.obs_names)[:5], ids[:5])))
    if not a.obs.equals(orig.obs):
        bad.append(('annotations-changed', 'obs dataframe differs from the input'))
    new_names = list(a.var_names)
    if len(new_names) != len(genes):
        bad.append(('genes-changed', '%d genes, expected %d' % (len(new_names), len(genes))))
        return bad, 'changed'
    placeholders = []
    for i, (got, want, origname) in enumerate(zip(new_names, names, genes)):
        if want is None:
            placeholders.append(got)
            if ENS.fullmatch(got) or got == origname:
                bad.append(('gene-name', 'unknown gene %r became %r (expected a placeholder)' % (origname, got)))
        elif got != want:
            bad.append(('gene-name', 'gene %d %r became %r, expected %r' % (i, origname, got, want)))
    if len(set(placeholders)) != len(placeholders) or set(placeholders) & set(known):
        bad.append(('gene-name', 'placeholders %r are not unique within the file' % placeholders))
    X = a.X.toarray() if hasattr(a.X, 'toarray') else np.asarray(a.X)
    if X.shape != V.shape:
        bad.append(('matrix-shape', '%r vs %r' % (X.shape, V.shape)))
        return bad, 'changed'
    if needs_round:
        Xf = X.astype(float)
        if not np.all(Xf == np.round(Xf)) or np.max(np.abs(Xf - V.astype(float))) > 0.5:
            w = np.unravel_index(np.argmax(np.abs(Xf - V.astype(float))), V.shape)
            bad.append(('rounding', 'value %r became %r (must move by at most 0.5 to an integer)'
                        % (float(V[w]), float(Xf[w]))))
        if X.dtype.kind not in 'iu':
            bad.append(('rounding', 'rounded matrix is stored as %s, not an integer type' % X.dtype))
    else:
        if not np.array_equal(X.astype(float), V.astype(float)):
            bad.append(('matrix-changed', 'X differs from the requested layer although no rounding was needed/requested'))
    uns = a.uns
    if needs_names:
        gm = uns.get('AIBS_CDM_gene_mapping')
        want_map = {o: n for o, n in zip(genes, new_names) if o != n}
        if gm is None or dict(gm) != want_map:
            bad.append(('renaming-record', 'recorded renaming %r, applied renaming %r'
                        % (None if gm is None else dict(gm), want_map)))
    nm = uns.get('AIBS_CDM_n_mapped_genes')
    if nm is None or int(nm) != len(genes) - n_un:
        bad.append(('mapped-count', 'recorded number of mapped genes %r, expected %d' % (nm, len(genes) - n_un)))
    return bad, 'changed'


def run(scn, sb):
    res = {'violations': [], 'probes': {}, 'faults': {}, 'interleavings': [], 'not_judged': {}, 'evaluations': 0,
           'keys': []}
    viol = res['violations']
    f = scn['file']
    V, ids, genes = make_file(f)
    common.begin(sb, scn['kcfg'])
    KERNEL.fine_io = True
    try:
        src = sb.p('in', 'input.h5ad')
        obs_cols = {'note': ['n%d' % i for i in range(len(ids))], 'num': list(range(len(ids)))} if f['obs_cols'] else None
        import anndata
        import warnings
        with warnings.catch_warnings():
            warnings.simplefilter('ignore')
            world.write_h5ad(src, V, ids, genes, encoding=f['encoding'], dtype=str(V.dtype), layer=f['layer'],
                             obs_cols=obs_cols, chunks=tuple(f['h5_chunks']) if f['h5_chunks'] else None)
        sha0 = harness.file_sha(src)
        st0 = os.stat(src)
        fkey = model.canonical_json([f, scn['round_to_int'], scn['explicit_mapper'], scn['use_output_dir']])

        def check_untouched(what):
            st = os.stat(src)
            if harness.file_sha(src) != sha0 or st.st_size != st0.st_size or st.st_mtime_ns != st0.st_mtime_ns:
                viol.append({'cls': 'input-modified', 'detail': '%s: the input file changed' % what})
            left = sb.listing('scratch')
            if left:
                viol.append({'cls': 'scratch-not-empty', 'detail': '%s: left in scratch: %r' % (what, sorted(left)[:5])})

        # ---- clean run
        os.makedirs(sb.p('out', 'clean'), exist_ok=True)
        w0 = KERNEL.parent_write_events
        out = call_validate(sb, scn, src, sb.p('out', 'clean'), 'clean')
        n_events = KERNEL.parent_write_events - w0
        res['evaluations'] += 1
        bad, cls = judge_clean(scn, V, ids, genes, out, src)
        for c_, d in bad:
            viol.append({'cls': c_, 'detail': '%s; file %s' % (d, json.dumps(f))})
        check_untouched('clean run')
        res['probes']['outcome_' + cls] = 1
        # ---- the product validated again, into its own directory (same simulated second unless the clock plan moves):
        # it is now the INPUT and must survive, whatever the second run decides to write
        if out[0] == 'ok' and out[1][0] is not None and scn['use_output_dir'] and os.path.exists(str(out[1][0])):
            from cell_type_mapper.validation.validate_h5ad import validate_h5ad
            from cell_type_mapper.gene_id.gene_id_mapper import GeneIdMapper
            prod = str(out[1][0])
            psha = harness.file_sha(prod)
            o2 = drivers.outcome_of(validate_h5ad, h5ad_path=prod,
                                    gene_id_mapper=GeneIdMapper.from_mouse() if scn['explicit_mapper'] else None,
                                    tmp_dir=sb.p('scratch'), layer='X', round_to_int=scn['round_to_int'],
                                    expected_max=None, output_dir=os.path.dirname(prod))
            res['evaluations'] += 1
            res['probes']['product_validated_again'] = 1
            if not os.path.exists(prod):
                viol.append({'cls': 'input-deleted', 'detail': 'the validated file %s, validated again into its own '
                             'directory, no longer exists (second run: %s)' % (os.path.basename(prod), o2[0])})
            elif harness.file_sha(prod) != psha:
                viol.append({'cls': 'input-modified', 'detail': 'the validated file %s, validated again into its own '
                             'directory, was overwritten (second run: %s)' % (os.path.basename(prod), o2[0])})
            if o2[0] == 'ok' and o2[1][0] is not None and os.path.abspath(str(o2[1][0])) != os.path.abspath(prod) \
                    and os.path.exists(str(o2[1][0])):
                os.unlink(str(o2[1][0]))
            left = sb.listing('scratch')
            if left:
                viol.append({'cls': 'scratch-not-empty', 'detail': 'second validation: left in scratch: %r'
                             % (sorted(left)[:5],)})
        res['keys'].append(fkey)
        # ---- one run per write event
        only = scn.get('only_k')
        ks = range(1, n_events + 1) if scn.get('enumerate', True) else []
        if only:
            ks = [only]
        fired_n = 0
        for k in ks:
            od = sb.p('out', 'k%d' % k)
            os.makedirs(od, exist_ok=True)
            KERNEL.parent_fault = {'at': KERNEL.parent_write_events + k, 'errno': 28 if k % 2 else 5}
            KERNEL.parent_fault_fired = None
            try:
                o = call_validate(sb, scn, src, od, 'k%d' % k)
            finally:
                fired = KERNEL.parent_fault_fired
                KERNEL.parent_fault = None
            res['evaluations'] += 1
            if not fired:
                res['not_judged']['fault_did_not_fire'] = res['not_judged'].get('fault_did_not_fire', 0) + 1
            else:
                fired_n += 1
                res['faults']['io_error_at_' + fired['kind']] = res['faults'].get('io_error_at_' + fired['kind'], 0) + 1
                res['keys'].append(fkey + '/k%d' % k)
                n_before = len(viol)
                check_untouched('I/O error at write event %d of %d (%s %s) -> %s'
                                % (k, n_events, fired['kind'], fired['path'], o[0]))
                for v in viol[n_before:]:
                    v['k'] = k
            shutil.rmtree(od, ignore_errors=True)
            for rel in list(sb.listing('scratch')):
                pth = sb.p('scratch', rel.rstrip('/'))
                if os.path.isdir(pth):
                    shutil.rmtree(pth, ignore_errors=True)
                elif os.path.exists(pth):
                    os.unlink(pth)
        res['grid'] = {'write_events': n_events, 'fired': fired_n}
        res['nontrivial'] = True
        res['sample'] = {'file': f, 'round_to_int': scn['round_to_int'], 'clean_outcome': cls,
                         'write_events_enumerated': n_events, 'faults_fired': fired_n}
        res['ticks'] = KERNEL.n_ticks
        return res
    finally:
        KERNEL.fine_io = False
        KERNEL.parent_fault = None
        sb.end()


def extra_evidence(records):
    ev = sum(((r.get('res') or {}).get('grid') or {}).get('write_events', 0) for r in records)
    fired = sum(((r.get('res') or {}).get('grid') or {}).get('fired', 0) for r in records)
    return {'write_events_enumerated': ev, 'faults_fired_total': fired, 'exhaustive': False,
            'exhaustive_note': 'every write event of every generated file is a fault point (complete per file); '
                               'files are sampled'}


def shrink(scn, violation=None):
    if violation and violation.get('k') and not scn.get('only_k'):
        c = dict(scn)
        c['only_k'] = violation['k']
        yield c
    if scn.get('enumerate', True) and not (violation and violation.get('k')):
        c = dict(scn)
        c['enumerate'] = False
        yield c
    for f in common.shrink_numbers(scn['file'], ['n_rows', 'n_cols']):
        c = dict(scn)
        c['file'] = f
        yield c
