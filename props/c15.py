"""
C15 -- JSON, CSV and HDF5 outputs tell the same story and round-trip.

Evaluated on the three files of every successful simulated mapping run (weak fit: the simulator
contributes run diversity -- chunking, transports, completion orders -- not the oracle).
"""
from sim import world
from . import common, mapfam

ID = 'C15'
LEVEL = 'exploration'
QUOTA = {'quick': 1800, 'thorough': 12000}
BUDGET = {'quick': 100, 'thorough': 900}
RULE = ('scenario = generated world (name tables present/absent, node names needing CSV quoting, any depth) x run '
        'configuration (0..5 runners-up, flatten / drop_level, single iteration) x seeded schedule; the CSV is parsed '
        'with the csv module and compared with the JSON through the generator\'s name tables, the HDF5 file is read '
        'back and compared field by field; non-trivial = names needed quoting or a name table was present or the '
        'taxonomy was reduced; distinct by hash of (world parameters, configuration)')
ASSUMPTIONS = ['weak fit: this relation would hold or fail identically under the OS scheduler',
               'CSV columns other than label/name/alias/confidence are not judged']
ORACLE = 'C15'


def gen(rng, tier, idx):
    wp = world.draw_world_params(rng)
    wp['odd_names'] = rng.random() < 0.5
    wp['name_mapper'] = rng.random() < 0.6
    wp['odd_cell_ids'] = rng.random() < 0.4
    big = rng.random() < 0.012
    if big:
        # a query of several thousand cells (writers that work in blocks of rows), the last id the longest
        wp.update(n_query=rng.choice([4200, 5000]), long_late_id=True, n_leaves=min(wp['n_leaves'], 6),
                  n_genes=min(wp['n_genes'], 16), q_dup_rows=0.0)
    W = world.make_world(wp)
    mcfg = common.draw_mapping_cfg(rng, W)
    if big:
        mcfg.update(chunk_size=rng.choice([1500, 2100, 6000]), bootstrap_iteration=min(3, mcfg['bootstrap_iteration']),
                    n_processors=rng.randint(1, 4))
    mcfg['min_markers'] = max(1, mcfg['min_markers'])
    return {'wp': wp, 'cfg': mcfg, 'sched': common.draw_sched(rng), 'kcfg': common.draw_kernel_cfg(rng)}


def run(scn, sb):
    res = mapfam.single_run(scn, sb, ORACLE)
    if res.get('nontrivial') is not False:
        res['nontrivial'] = bool(scn['wp'].get('odd_names') or scn['wp'].get('name_mapper')
                                 or res.get('probes', {}).get('reduced_taxonomy'))
    return res


def shrink(scn, violation=None):
    return mapfam.shrink_single(scn)
