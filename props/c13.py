"""
C13 -- on-disk sparse transposition and reshaping preserve the matrix.

Serial transposer (with/without value array, every kind of minor-axis sub-range, budgets down to the
enforced minimum), the parallel transposer under the simulated kernel (1-6 workers, seeded
schedules), and the file-level operations built on and beside them, each compared with the same
operation applied in memory by scipy.  The thorough tier additionally sweeps ALL 4x4 sparsity
patterns through the serial transposer (reported as a sweep; the claim does not rest on it).
"""
import itertools
import os

import numpy as np
import scipy.sparse as sp

from sim import drivers, harness, kernel, model, world
from sim.kernel import KERNEL
from . import common
from .c05 import make_matrix

ID = 'C13'
LEVEL = 'exploration'
QUOTA = {'quick': 2400, 'thorough': 30000}
BUDGET = {'quick': 100, 'thorough': 900}
SWEEP_BLOCKS = {'quick': 24, 'thorough': 256}        # blocks of 256 of the 65536 4x4 patterns
OPS = ['serial', 'serial', 'parallel', 'parallel', 'csc_to_csr', 'by_way_of_disk', 'pivot', 'shuffle',
       'subset_cols', 'amalgamate', 'copy_layer', 'copy_h5']
RULE = ('scenario = one file operation (serial / parallel transposition, CSC->CSR, transpose by way of disk, CSR->CSC '
        'pivot, row shuffle, column sub-setting, stacking row selections from several files, copying a layer into X, '
        'HDF5 copy excluding data) on a generated matrix (empty slices, single entry, fully dense, > 100 stored entries) '
        'with drawn budget / worker count / sub-range / selection, compared with scipy; plus blocks of 256 of the 65536 '
        '4x4 patterns through the serial transposer; non-trivial = the matrix has >= 1 stored entry (or a sweep block); '
        'distinct by hash of the scenario')
ASSUMPTIONS = ['the in-memory oracle is scipy.sparse (sorted indices, canonical format)',
               'the 4x4 sweep is complete only in the thorough tier and only for the serial transposer']


def gen(rng, tier, idx):
    nb = SWEEP_BLOCKS[tier]
    if idx < nb:
        step = 256 // nb
        return {'op': 'sweep', 'block': idx * step, 'use_data': idx % 2 == 0, 'kcfg': {}}
    op = OPS[idx % len(OPS)]
    big = rng.random() < 0.2
    big_shape = rng.choice([(25, 14), (25, 14), (3, 240), (240, 3), (12, 40), (2, 130), (260, 4), (4, 260), (40, 14)])
    if tier == 'thorough' and rng.random() < 0.03:
        big, big_shape = True, rng.choice([(65600, 2), (2, 65600)])
    m = {'seed': rng.randrange(2 ** 31), 'n_rows': rng.choice([1, 2, 3, 4, 6, 9, 19]) if not big else big_shape[0],
         'n_cols': rng.choice([1, 2, 3, 4, 7, 12]) if not big else big_shape[1],
         'density': rng.choice([0.0, 0.05, 0.2, 0.5, 1.0]) if not big
         else (rng.choice([0.05, 0.2, 0.7]) if max(big_shape) >= 240 else 0.7),
         'empty_rows': rng.random() < 0.4, 'empty_cols': rng.random() < 0.4,
         'dtype': rng.choice(['float64', 'float32', 'int32', 'uint16'])}
    if op in ('parallel', 'pivot') and m['n_cols'] < 2:
        m['n_cols'] = 3
    narrow = op in ('parallel', 'serial', 'pivot') and rng.random() < 0.15
    if narrow:
        # more slices along one axis than stored entries, across the 2**8 boundary: the pointer array and the index
        # array then want DIFFERENT minimal unsigned types
        a_, b_ = rng.choice([(260, 4), (300, 11), (280, 5)])
        if rng.random() < 0.5:
            a_, b_ = b_, a_
        m.update(n_rows=a_, n_cols=b_, density=rng.choice([0.03, 0.05, 0.1]), empty_rows=False, empty_cols=False)
    cfg = {'max_gb': rng.choice([1.0, 1e-4, 1e-9]), 'use_data': rng.random() < 0.65,
           'n_processors': rng.randint(1, 6), 'sel_seed': rng.randrange(2 ** 31),
           'slice': rng.choice(['none', 'full', 'sub', 'empty', 'single']),
           'compression': rng.random() < 0.5, 'dst_sparse': rng.random() < 0.6,
           'max_elements': rng.choice([1, 3, 7, 100000]), 'uint_ok': (rng.random() < 0.3) or narrow,
           'contiguous': rng.random() < 0.3,
           'dense_chunks': rng.choice([None, [1, 1], [4, 5], [3, 2], [1000, 1], [1, 1000]])}
    return {'op': op, 'mat': m, 'cfg': cfg, 'sched': common.draw_sched(rng), 'kcfg': common.draw_kernel_cfg(rng)}


def _write_csr_h5(path, A):
    import h5py
    with h5py.File(path, 'w') as f:
        f.create_dataset('indices', data=A.indices.astype(np.int64))
        f.create_dataset('indptr', data=A.indptr.astype(np.int64))
        f.create_dataset('data', data=A.data)


def _canon(A):
    A = sp.csr_matrix(A) if A.format != 'csc' else A
    A = A.copy()
    A.sum_duplicates()
    A.sort_indices()
    return A


def _check_sparse_file(path, want, use_data, what):
    """compare indptr/indices/(data) in an HDF5 file with the scipy matrix `want` (csr of the result)"""
    import h5py
    want = _canon(want)
    with h5py.File(path, 'r') as f:
        indptr = f['indptr'][()]
        indices = f['indices'][()]
        data = f['data'][()] if (use_data and 'data' in f) else None
        has_data = 'data' in f
    bad = []
    if len(indptr) != want.shape[0] + 1 or np.any(np.diff(indptr.astype(np.int64)) < 0) \
            or int(indptr[-1]) != want.nnz or int(indptr[0]) != 0:
        bad.append('%s: pointer array %r is not monotone from 0 to nnz=%d over %d slices'
                   % (what, indptr.tolist()[:12], want.nnz, want.shape[0]))
        return bad
    if not np.array_equal(indptr.astype(np.int64), want.indptr.astype(np.int64)):
        bad.append('%s: pointer array %r, expected %r' % (what, indptr.tolist()[:12], want.indptr.tolist()[:12]))
        return bad
    if not np.array_equal(indices.astype(np.int64), want.indices.astype(np.int64)):
        bad.append('%s: minor indices %r, expected %r (sorted, unique per slice)'
                   % (what, indices.tolist()[:16], want.indices.tolist()[:16]))
        return bad
    if use_data:
        if data is None:
            bad.append('%s: value array missing' % what)
        elif not np.array_equal(data.astype(float), want.data.astype(float)):
            bad.append('%s: values %r, expected %r' % (what, data.tolist()[:12], want.data.tolist()[:12]))
    elif has_data:
        bad.append('%s: a value array was written although none was given' % what)
    return bad


def _slice_of(cfg, n, r):
    kind = cfg['slice']
    if kind == 'none':
        return None
    if kind == 'full':
        return (0, n)
    if kind == 'empty':
        a = int(r.integers(0, n + 1))
        return (a, a)
    if kind == 'single':
        a = int(r.integers(0, n))
        return (a, a + 1)
    a = int(r.integers(0, n))
    b = int(r.integers(a, n + 1))
    return (a, b)


def _read_x(path):
    import anndata
    a = anndata.read_h5ad(path)
    X = a.X
    return (X.toarray() if hasattr(X, 'toarray') else np.asarray(X)), a


def run_op(scn, sb, res):
    import h5py
    op, cfg = scn['op'], scn['cfg']
    M = make_matrix(dict(scn['mat'], dtype=scn['mat']['dtype']))
    n, c = M.shape
    r = np.random.default_rng(cfg['sel_seed'])
    A = _canon(sp.csr_matrix(M))
    sched = dict(scn['sched'])
    bad = []
    scheds = []
    ids = ['c%d' % i for i in range(n)]
    genes = ['g%d' % i for i in range(c)]
    what = '%s on %dx%d nnz=%d max_gb=%g' % (op, n, c, A.nnz, cfg['max_gb'])
    if op == 'serial':
        from cell_type_mapper.utils.csc_to_csr import transpose_sparse_matrix_on_disk
        src = sb.p('in', 'm.h5')
        _write_csr_h5(src, A)
        sl = _slice_of(cfg, c, r)
        dst = sb.p('out', 't.h5')

        def body():
            with h5py.File(src, 'r') as f:
                transpose_sparse_matrix_on_disk(
                    indices_handle=f['indices'], indptr_handle=f['indptr'],
                    data_handle=f['data'] if cfg['use_data'] else None, indices_max=c,
                    max_gb=cfg['max_gb'], output_path=dst, verbose=False, indices_slice=sl)
        out = drivers.outcome_of(body)
        what += ' slice=%r data=%r' % (sl, cfg['use_data'])
        if out[0] == 'ok':
            sub = M if sl is None else M[:, sl[0]:sl[1]]
            bad = _check_sparse_file(dst, sp.csr_matrix(sub.T), cfg['use_data'], what)
    elif op == 'parallel':
        src = sb.p('in', 'm.h5')
        _write_csr_h5(src, A)
        dst = sb.p('out', 't.h5')
        out, s = harness.run_call(sched, drivers.run_transpose_v2, src, dst, sb.p('scratch'), c,
                                  use_data=cfg['use_data'], max_gb=cfg['max_gb'],
                                  n_processors=cfg['n_processors'], uint_ok=cfg['uint_ok'])
        scheds.append(s)
        what += ' workers=%d data=%r' % (cfg['n_processors'], cfg['use_data'])
        if out[0] == 'ok':
            bad = _check_sparse_file(dst, sp.csr_matrix(M.T), cfg['use_data'], what)
    elif op == 'csc_to_csr':
        from cell_type_mapper.utils.csc_to_csr import csc_to_csr_on_disk
        src = sb.p('in', 'm.h5ad')
        world.write_h5ad(src, M, ids, genes, encoding='csc', dtype=scn['mat']['dtype'])
        dst = sb.p('out', 'csr.h5')

        def body():
            with h5py.File(src, 'r') as f:
                csc_to_csr_on_disk(csc_group=f['X'], csr_path=dst, array_shape=(n, c), max_gb=cfg['max_gb'],
                                   use_data_array=cfg['use_data'])
        out = drivers.outcome_of(body)
        if out[0] == 'ok':
            bad = _check_sparse_file(dst, A, cfg['use_data'], what)
    elif op == 'by_way_of_disk':
        from cell_type_mapper.utils.csc_to_csr import transpose_by_way_of_disk
        out = drivers.outcome_of(transpose_by_way_of_disk, indices=A.indices, indptr=A.indptr, indices_max=c,
                                 max_gb=cfg['max_gb'], tmp_dir=sb.p('scratch'))
        if out[0] == 'ok':
            indptr, indices = out[1]
            T = _canon(sp.csr_matrix(M.T))
            if not np.array_equal(np.asarray(indptr).astype(np.int64), T.indptr.astype(np.int64)) or \
                    not np.array_equal(np.asarray(indices).astype(np.int64), T.indices.astype(np.int64)):
                bad.append('%s: returned (%r, %r), expected (%r, %r)'
                           % (what, list(indptr)[:10], list(indices)[:10], T.indptr.tolist()[:10],
                              T.indices.tolist()[:10]))
            out = ('ok', None)
    elif op == 'pivot':
        from cell_type_mapper.utils.anndata_utils import pivot_csr_h5ad
        src = sb.p('in', 'm.h5ad')
        world.write_h5ad(src, M, ids, genes, encoding='csr', dtype=scn['mat']['dtype'])
        dst = sb.p('out', 'csc.h5ad')
        out, s = harness.run_call(sched, pivot_csr_h5ad, src_path=src, dst_path=dst, tmp_dir=sb.p('scratch'),
                                  n_processors=cfg['n_processors'], max_gb=max(cfg['max_gb'], 1e-9),
                                  compression=cfg['compression'])
        scheds.append(s)
        if out[0] == 'ok':
            with h5py.File(dst, 'r') as f:
                enc = dict(f['X'].attrs).get('encoding-type')
            X, a = _read_x(dst)
            if enc != 'csc_matrix':
                bad.append('%s: output encoding %r' % (what, enc))
            if X.shape != M.shape or not np.array_equal(X.astype(float), M.astype(float)):
                bad.append('%s: pivoted matrix differs from the original' % what)
            if list(a.obs_names) != ids or list(a.var_names) != genes:
                bad.append('%s: obs/var names changed' % what)
            if not bad and c >= 1:
                # the operations compose: the pivoted file is the input of the column sub-setting
                from cell_type_mapper.utils.anndata_utils import subset_csc_h5ad_columns
                dst2 = sb.p('out', 'csc_subset.h5ad')
                k = int(r.integers(1, c + 1))
                cols = r.permutation(c)[:k]
                o2 = drivers.outcome_of(subset_csc_h5ad_columns, src_path=dst, dst_path=dst2, chosen_columns=cols,
                                        compression=cfg['compression'])
                if o2[0] != 'ok':
                    bad.append('%s: column sub-setting of the pivoted file raises %s' % (what, o2[1][:200]))
                else:
                    try:
                        X2, a2 = _read_x(dst2)
                        sc = sorted(int(x) for x in cols)
                        if X2.shape != (n, k) or not np.array_equal(X2.astype(float), M[:, sc].astype(float)):
                            bad.append('%s: column subset %r of the pivoted file differs from M[:, cols]' % (what, sc))
                    except Exception as e:
                        bad.append('%s: column subset of the pivoted file is unreadable: %s: %s'
                                   % (what, type(e).__name__, str(e)[:150]))
    elif op == 'shuffle':
        from cell_type_mapper.utils.anndata_utils import shuffle_csr_h5ad_rows
        src = sb.p('in', 'm.h5ad')
        world.write_h5ad(src, M, ids, genes, encoding='csr', dtype=scn['mat']['dtype'])
        dst = sb.p('out', 'shuffled.h5ad')
        order = r.permutation(n)
        out = drivers.outcome_of(shuffle_csr_h5ad_rows, src_path=src, dst_path=dst, new_row_order=order,
                                 compression=cfg['compression'])
        if out[0] == 'ok':
            X, a = _read_x(dst)
            if X.shape != M.shape or not np.array_equal(X.astype(float), M[order].astype(float)):
                bad.append('%s: shuffled matrix differs from M[order], order %r' % (what, order.tolist()))
            if list(a.obs_names) != [ids[i] for i in order]:
                bad.append('%s: obs names not in the new order' % what)
            out = ('ok', None)
    elif op == 'subset_cols':
        from cell_type_mapper.utils.anndata_utils import subset_csc_h5ad_columns
        src = sb.p('in', 'm.h5ad')
        world.write_h5ad(src, M, ids, genes, encoding='csc', dtype=scn['mat']['dtype'])
        dst = sb.p('out', 'subset.h5ad')
        k = int(r.integers(1, c + 1))
        cols = r.permutation(c)[:k]
        out = drivers.outcome_of(subset_csc_h5ad_columns, src_path=src, dst_path=dst, chosen_columns=cols,
                                 compression=cfg['compression'])
        if out[0] == 'ok':
            X, a = _read_x(dst)
            sc = sorted(int(x) for x in cols)
            if X.shape != (n, k) or not np.array_equal(X.astype(float), M[:, sc].astype(float)):
                bad.append('%s: column subset %r differs from M[:, cols]' % (what, sc))
            if list(a.var_names) != [genes[i] for i in sc]:
                bad.append('%s: var names %r do not match the chosen columns %r' % (what, list(a.var_names), sc))
            out = ('ok', None)
    elif op == 'amalgamate':
        import pandas as pd
        from cell_type_mapper.utils.anndata_utils import amalgamate_h5ad
        n_files = int(r.integers(1, 4))
        src_rows, blocks, names = [], [], []
        for fi in range(n_files):
            Mi = make_matrix(dict(scn['mat'], seed=scn['mat']['seed'] + fi + 1))
            enc = ['csr', 'csc', 'dense'][int(r.integers(0, 3))]
            layer = None if r.random() < 0.6 else 'lay'
            p = sb.p('in', 'src_%d.h5ad' % fi)
            world.write_h5ad(p, Mi, ['f%d_c%d' % (fi, i) for i in range(n)], genes, encoding=enc,
                             dtype=scn['mat']['dtype'], layer=layer)
            k = int(r.integers(1, n + 1))
            rows = [int(x) for x in r.permutation(n)[:k]]
            u = r.random()
            if u < 0.4:
                rows = sorted(rows)
            elif u < 0.7 and n >= 4:
                # a gap-free block of rows in shuffled order (first..last covers exactly len(rows) rows)
                a0 = int(r.integers(0, n - 3))
                blk = list(range(a0, min(n, a0 + int(r.integers(4, 8)))))
                rows = [int(x) for x in r.permutation(blk)]
            src_rows.append({'path': p, 'rows': rows, 'layer': layer or 'X'})
            blocks.append(Mi[rows])
            names += ['f%d_c%d' % (fi, i) for i in rows]
        want = np.vstack(blocks)
        dst = sb.p('out', 'amalgam.h5ad')
        out = drivers.outcome_of(amalgamate_h5ad, src_rows=src_rows, dst_path=dst,
                                 dst_obs=pd.DataFrame(index=pd.Index(names)),
                                 dst_var=pd.DataFrame(index=pd.Index(genes)), dst_sparse=cfg['dst_sparse'],
                                 tmp_dir=sb.p('scratch'), compression=cfg['compression'])
        what += ' files=%d dst_sparse=%r' % (n_files, cfg['dst_sparse'])
        if out[0] == 'ok':
            X, a = _read_x(dst)
            if X.shape != want.shape or not np.array_equal(X.astype(float), want.astype(float)):
                bad.append('%s: stacked matrix differs from the stacked selections %r'
                           % (what, [(os.path.basename(s['path']), s['rows'], s['layer']) for s in src_rows]))
            out = ('ok', None)
    elif op == 'copy_layer':
        from cell_type_mapper.utils.anndata_utils import copy_layer_to_x
        enc = ['csr', 'csc', 'dense'][int(r.integers(0, 3))]
        layer = 'X' if r.random() < 0.3 else 'lay'
        src = sb.p('in', 'm.h5ad')
        dense_chunks = None
        if enc == 'dense' and M.size and cfg.get('dense_chunks'):
            dense_chunks = tuple(cfg['dense_chunks'])
            what += ' h5 chunks %r' % (dense_chunks,)
        world.write_h5ad(src, M, ids, genes, encoding=enc, dtype=scn['mat']['dtype'],
                         layer=None if layer == 'X' else layer, chunks=dense_chunks)
        if cfg.get('contiguous') and enc != 'dense':
            # the same layer stored in contiguous (un-chunked) HDF5 datasets
            key = 'X' if layer == 'X' else 'layers/%s' % layer
            with h5py.File(src, 'a') as f:
                for k in ('data', 'indices', 'indptr'):
                    v = f[key][k][()]
                    del f[key][k]
                    f[key].create_dataset(k, data=v)
            what += ' contiguous'
        dst = sb.p('out', 'copied.h5ad')
        out = drivers.outcome_of(copy_layer_to_x, original_h5ad_path=src, new_h5ad_path=dst, layer=layer)
        what += ' encoding=%s layer=%s' % (enc, layer)
        if out[0] == 'ok':
            X, a = _read_x(dst)
            if X.shape != M.shape or not np.array_equal(X.astype(float), M.astype(float)):
                bad.append('%s: X of the copy differs from the layer' % what)
            if list(a.obs_names) != ids or list(a.var_names) != genes:
                bad.append('%s: obs/var names changed' % what)
            out = ('ok', None)
    else:
        from cell_type_mapper.utils.h5_utils import copy_h5_excluding_data
        src = sb.p('in', 'm.h5')
        with h5py.File(src, 'w') as f:
            f.create_dataset('dense', data=M, chunks=(max(1, n // 2), max(1, c // 2)))
            g = f.create_group('grp')
            g.create_dataset('indices', data=A.indices)
            g.create_dataset('indptr', data=A.indptr)
            g.create_dataset('data', data=A.data)
            g2 = g.create_group('inner')
            g2.create_dataset('txt', data=b'some text')
            f.create_dataset('skipme', data=np.arange(5))
            f['dense'].attrs['k'] = 'v'
        dst = sb.p('out', 'copy.h5')
        exd = ['skipme'] if r.random() < 0.7 else []
        exg = ['grp/inner'] if r.random() < 0.4 else []
        out = drivers.outcome_of(copy_h5_excluding_data, src_path=src, dst_path=dst, tmp_dir=sb.p('scratch'),
                                 excluded_groups=exg, excluded_datasets=exd, max_elements=cfg['max_elements'])
        what += ' excluded=%r/%r max_elements=%d' % (exg, exd, cfg['max_elements'])
        if out[0] == 'ok':
            with h5py.File(src, 'r') as a, h5py.File(dst, 'r') as b:
                names = []
                a.visititems(lambda nm, o: names.append(nm) if isinstance(o, h5py.Dataset) else None)
                for nm in names:
                    excluded = nm in exd or any(nm.startswith(gx + '/') for gx in exg)
                    if excluded:
                        if nm in b:
                            bad.append('%s: excluded dataset %s was copied' % (what, nm))
                        continue
                    if nm not in b:
                        bad.append('%s: dataset %s missing from the copy' % (what, nm))
                        continue
                    va, vb = a[nm][()], b[nm][()]
                    same = (va == vb) if isinstance(va, bytes) else (np.array_equal(va, vb) and a[nm].dtype == b[nm].dtype)
                    if not same:
                        bad.append('%s: dataset %s differs in the copy' % (what, nm))
            out = ('ok', None)
    common.sched_stats(res, scheds)
    if out[0] != 'ok':
        res['violations'].append({'cls': 'operation-raises-%s' % op, 'detail': '%s: %s' % (what, out[1][:400])})
    for b_ in bad[:2]:
        res['violations'].append({'cls': 'wrong-matrix-%s' % op, 'detail': b_})
    res['evaluations'] = 1
    pr = res['probes']
    pr['op_' + op] = 1
    if A.nnz == 0:
        pr['no_stored_entry'] = 1
    if A.nnz > 100 and cfg['max_gb'] <= 1e-4:
        pr['minimum_chunk_size_crossed'] = 1
    res['nontrivial'] = A.nnz > 0
    res['sample'] = {'op': op, 'shape': [n, c], 'nnz': int(A.nnz), 'cfg': cfg, 'outcome': out[0]}


def run_sweep(scn, sb, res):
    import h5py
    from cell_type_mapper.utils.csc_to_csr import transpose_sparse_matrix_on_disk
    n_bad = 0
    src = sb.p('in', 'm.h5')
    dst = sb.p('out', 't.h5')
    base = scn['block'] * 256
    for pat in range(base, base + 256):
        bits = [(pat >> i) & 1 for i in range(16)]
        M = (np.array(bits).reshape(4, 4) * (1 + np.arange(16).reshape(4, 4))).astype(float)
        A = _canon(sp.csr_matrix(M))
        _write_csr_h5(src, A)
        if os.path.exists(dst):
            os.unlink(dst)
        try:
            with h5py.File(src, 'r') as f:
                transpose_sparse_matrix_on_disk(
                    indices_handle=f['indices'], indptr_handle=f['indptr'],
                    data_handle=f['data'] if scn['use_data'] else None, indices_max=4, max_gb=1e-9,
                    output_path=dst, verbose=False)
            bad = _check_sparse_file(dst, sp.csr_matrix(M.T), scn['use_data'], '4x4 pattern %d' % pat)
        except Exception as e:
            bad = ['4x4 pattern %d raised %r' % (pat, e)]
        if bad and n_bad < 2:
            res['violations'].append({'cls': 'wrong-matrix-sweep', 'detail': bad[0]})
            n_bad += 1
    res['evaluations'] = 256
    res['probes']['sweep_patterns_4x4'] = 256
    res['nontrivial'] = True
    res['sample'] = {'op': 'sweep', 'patterns': [base, base + 255], 'use_data': scn['use_data']}


def run(scn, sb):
    res = {'violations': [], 'probes': {}, 'faults': {}, 'interleavings': [], 'not_judged': {}}
    common.begin(sb, scn.get('kcfg') or {})
    try:
        if scn['op'] == 'sweep':
            run_sweep(scn, sb, res)
        else:
            run_op(scn, sb, res)
        res['key'] = model.canonical_json({k: v for k, v in scn.items() if k not in ('kcfg', 'sched')})
        res['ticks'] = KERNEL.n_ticks
        return res
    finally:
        sb.end()


def extra_evidence(records):
    pats = sum((r.get('res') or {}).get('probes', {}).get('sweep_patterns_4x4', 0) for r in records)
    return {'sweep_4x4_patterns_checked': pats, 'sweep_4x4_complete': pats >= 65536}


def shrink(scn, violation=None):
    if scn['op'] == 'sweep':
        return
    for m in common.shrink_numbers(scn['mat'], ['n_rows', 'n_cols']):
        c = dict(scn)
        c['mat'] = m
        yield c
    if scn.get('sched', {}).get('policy') != 'fifo':
        c = dict(scn)
        c['sched'] = {'policy': 'fifo', 'seed': 0}
        yield c
    for cfg in common.shrink_numbers(scn['cfg'], ['n_processors']):
        c = dict(scn)
        c['cfg'] = cfg
        yield c
