"""
Stage scenarios shared by C04, C14 and C19: generation of (world, configuration) per pooled
stage, preparation of the stage's inputs, and one execution of the stage under a kernel.
"""
import json
import os
import random

import numpy as np

from sim import drivers, harness, kernel, model, world
from sim.kernel import KERNEL
from . import common

STAGES = ['mapping', 'mapping', 'mapping_mgr', 'stats', 'stats', 'refmarkers', 'pmask',
          'pmask_markers', 'qmarkers', 'transpose', 'otf']
ALL_STAGES = ['mapping', 'mapping_mgr', 'stats', 'refmarkers', 'pmask', 'pmask_markers', 'qmarkers',
              'transpose', 'otf']


def gen_stage(rng, stage):
    """(world parameters, configuration) for one pooled stage"""
    scn = {'stage': stage}
    if stage in ('mapping', 'mapping_mgr'):
        wp = world.draw_world_params(rng, single_top=False, q_all_zero=False)
        wp['n_query'] = rng.choice([3, 5, 8, 12, 20])
        scn['wp'] = wp
        W = world.make_world(wp)
        mcfg = common.draw_mapping_cfg(rng, W)
        mcfg['n_processors'] = rng.randint(2, 6)
        mcfg['chunk_size'] = rng.randint(1, max(1, wp['n_query'] // 2))
        scn['cfg'] = mcfg
    elif stage == 'stats':
        wp = world.draw_world_params(rng, cells_per_leaf=[1, rng.choice([3, 6])],
                                     n_unlabelled=rng.choice([0, 3]))
        scn['wp'] = wp
        scn['cfg'] = {'n_files': rng.randint(1, 3), 'encoding': rng.choice(['dense', 'csr', 'csc']),
                      'rows_at_a_time': rng.randint(1, 9), 'n_processors': rng.randint(2, 6)}
    elif stage in ('refmarkers', 'pmask', 'pmask_markers', 'qmarkers'):
        wp = world.draw_world_params(rng, cells_per_leaf=[2, rng.choice([3, 6])], blocky=False,
                                     degenerate=0.0, n_unlabelled=0, odd_names=False,
                                     shared_names=False)
        wp['n_leaves'] = rng.choice([3, 4, 5, 6, 8, 10])
        wp['depth'] = rng.choice([1, 2, 3])
        if stage in ('pmask', 'pmask_markers'):
            wp['n_leaves'] = rng.choice([6, 7, 8, 10])
        if stage == 'qmarkers':
            wp['n_leaves'] = rng.choice([5, 6, 8, 10])
            wp['depth'] = rng.choice([2, 3, 3])
            wp['single_top'] = False
        wp['n_genes'] = rng.choice([8, 12, 16])
        scn['wp'] = wp
        scn['cfg'] = {'n_processors': rng.randint(2, 5), 'max_gb': rng.choice([1.0, 1e-6]),
                      'exact_penetrance': rng.random() < 0.3,
                      'n_valid': rng.choice([3, 10, 30] if stage != 'pmask_markers' else [2, 3, 8]),
                      'p_th': rng.choice([0.01, 0.2, 0.5]), 'n_per_utility': rng.randint(1, 4),
                      'q_subset': rng.random() < 0.5, 'n_per': 8,
                      'behemoth_cutoff': rng.choice([0, 2, 5000000])}
    elif stage == 'otf':
        # mapping with on-the-fly markers: reference markers, query markers and mapping pools inside ONE call
        wp = world.draw_world_params(rng, cells_per_leaf=[2, rng.choice([3, 6])], blocky=False,
                                     degenerate=0.0, n_unlabelled=0, odd_names=rng.random() < 0.2,
                                     shared_names=False, single_top=False)
        wp['n_leaves'] = rng.choice([3, 4, 5, 6, 8])
        wp['depth'] = rng.choice([1, 2, 3])
        wp['n_genes'] = rng.choice([8, 12, 16])
        wp['n_query'] = rng.choice([3, 5, 8, 12])
        wp['q_drop'] = rng.choice([0.0, 0.0, 0.15])
        scn['wp'] = wp
        W = world.make_world(wp)
        droppable = list(W.tax.hierarchy[:-1])
        scn['cfg'] = {'n_processors': rng.randint(2, 4), 'n_valid': rng.choice([3, 10, 30]),
                      'exact_penetrance': rng.random() < 0.3, 'p_th': rng.choice([0.01, 0.2, 0.5]),
                      'n_per_utility': rng.randint(1, 4), 'chunk_size': rng.randint(1, max(1, wp['n_query'] // 2)),
                      'bootstrap_factor': rng.choice([1.0, 0.9, 0.7, 0.5]),
                      'bootstrap_iteration': rng.choice([1, 3, 7]), 'rng_seed': rng.randrange(2 ** 31),
                      'n_runners_up': rng.randint(0, 3), 'min_markers': rng.choice([1, 1, 3]),
                      'drop_level': rng.choice(droppable) if droppable and rng.random() < 0.2 else None,
                      'flatten': rng.random() < 0.1, 'cloud_safe': rng.random() < 0.3,
                      'encoding': rng.choice(['dense', 'csr', 'csc']), 'max_gb': rng.choice([1.0, 1e-6]),
                      # the statistics files for the marker search named explicitly (the multi-dataset form of the
                      # configuration) instead of falling back on precomputed_stats.path
                      'explicit_path_list': rng.random() < 0.4}
    else:
        scn['mat'] = {'seed': rng.randrange(2 ** 31), 'n_rows': rng.randint(1, 12),
                      'n_cols': rng.randint(2, 14), 'density': rng.choice([0.1, 0.4, 0.9]),
                      'use_data': rng.random() < 0.6}
        scn['cfg'] = {'n_processors': rng.randint(2, 5), 'max_gb': rng.choice([1.0, 1e-8])}
    return scn


def _quiet_fifo(fn, *a, **k):
    """run a preparatory (not judged) stage under a plain FIFO scheduler"""
    out, s = harness.run_call({'policy': 'fifo', 'seed': 0}, fn, *a, **k)
    return out


def _write_reference(sb, W, n_files, encoding):
    n = len(W.ref_ids)
    bounds = [0] + sorted(random.Random(n * 7 + n_files).sample(range(1, n), min(n_files - 1, n - 1))) \
        + [n] if n > 1 else [0, n]
    paths = []
    for i in range(len(bounds) - 1):
        a, b = bounds[i], bounds[i + 1]
        p = sb.p('in', 'ref_%d.h5ad' % i)
        world.write_h5ad(p, W.ref_X[a:b], W.ref_ids[a:b], W.genes, encoding=encoding)
        paths.append(p)
    return paths


def prepare(scn, sb):
    """write the inputs of the stage under test (fixed for all kernels of the scenario)"""
    stage = scn['stage']
    ctx = {}
    if stage in ('mapping', 'mapping_mgr'):
        W = world.make_world(scn['wp'])
        ctx['W'] = W
        ctx['paths'] = common.setup_mapping_inputs(sb, W, scn['cfg'])
        if stage == 'mapping_mgr':
            tax = W.tax
            if scn['cfg'].get('flatten'):
                tax = tax.flatten()
            elif scn['cfg'].get('drop_level') in W.tax.hierarchy[:-1]:
                tax = tax.drop_level(scn['cfg']['drop_level'])
            ctx['tax_dict'] = tax.to_dict()
            lookup = dict(W.markers)
            if scn['cfg'].get('flatten'):
                allm = sorted(set(g for v in lookup.values() for g in v))
                lookup = {'None': allm}
            cache = sb.p('in', 'marker_cache.h5')
            out = drivers.outcome_of(drivers.make_marker_cache, lookup, W.genes, W.q_genes, cache,
                                     ctx['tax_dict'], min_markers=scn['cfg']['min_markers'])
            ctx['cache'] = cache if out[0] == 'ok' else None
            ctx['prep_outcome'] = out
    elif stage == 'stats':
        W = world.make_world(scn['wp'])
        ctx['W'] = W
        ctx['ref_paths'] = _write_reference(sb, W, scn['cfg']['n_files'], scn['cfg']['encoding'])
        ctx['tax_dict'] = W.tax.to_dict(W.leaf_cells())
    elif stage in ('refmarkers', 'pmask', 'pmask_markers', 'qmarkers'):
        W = world.make_world(scn['wp'])
        ctx['W'] = W
        ctx['stats'] = W.write_stats_file(sb.p('in', 'stats.h5'))
        cfg = scn['cfg']
        if stage == 'pmask_markers':
            ctx['mask'] = sb.p('in', 'pmask.h5')
            ctx['prep_outcome'] = _quiet_fifo(drivers.run_p_value_mask, ctx['stats'], ctx['mask'],
                                              sb.p('scratch'), p_th=cfg['p_th'], n_per=cfg['n_per'],
                                              n_processors=2)
        if stage == 'qmarkers':
            os.makedirs(sb.p('in', 'refm'), exist_ok=True)
            ctx['prep_outcome'] = _quiet_fifo(drivers.run_reference_markers, [ctx['stats']],
                                              sb.p('in', 'refm'), sb.p('scratch'), n_processors=2,
                                              p_th=cfg['p_th'], n_valid=cfg['n_valid'],
                                              exact_penetrance=cfg['exact_penetrance'])
            ctx['refm'] = sb.p('in', 'refm', 'reference_markers.h5')
            if cfg['q_subset']:
                qg = [g for i, g in enumerate(W.genes) if i % 3 != 0] + ['extra_x']
                ctx['q_genes'] = qg
                world.write_h5ad(sb.p('in', 'q.h5ad'), np.zeros((2, len(qg))), ['a', 'b'], qg)
    elif stage == 'otf':
        W = world.make_world(scn['wp'])
        ctx['W'] = W
        ctx['stats'] = W.write_stats_file(sb.p('in', 'stats.h5'))
        ctx['query'] = sb.p('in', 'query.h5ad')
        world.write_h5ad(ctx['query'], W.q_X, W.q_ids, W.q_genes, encoding=scn['cfg']['encoding'])
    else:
        import h5py
        import scipy.sparse as sp
        m = scn['mat']
        r = np.random.default_rng(m['seed'])
        A = (r.random((m['n_rows'], m['n_cols'])) < m['density']) * r.integers(1, 100, (m['n_rows'], m['n_cols']))
        csr = sp.csr_matrix(A.astype(float))
        p = sb.p('in', 'mat.h5')
        with h5py.File(p, 'w') as f:
            f.create_dataset('indices', data=csr.indices.astype(np.int64))
            f.create_dataset('indptr', data=csr.indptr.astype(np.int64))
            f.create_dataset('data', data=csr.data)
        ctx['mat_path'] = p
        ctx['n_cols'] = m['n_cols']
    return ctx


def otf_driver_cfg(sb, ctx, cfg, outd, n_processors=None, tmp_dir=None):
    return drivers.otf_config(
        ctx['query'], ctx['stats'], outd, tmp_dir or sb.p('scratch'), tag='otf',
        n_processors=n_processors or cfg['n_processors'], n_valid=cfg['n_valid'],
        exact_penetrance=cfg['exact_penetrance'], p_th=cfg['p_th'], n_per_utility=cfg['n_per_utility'],
        chunk_size=cfg['chunk_size'], bootstrap_factor=cfg['bootstrap_factor'],
        bootstrap_iteration=cfg['bootstrap_iteration'], rng_seed=cfg['rng_seed'],
        n_runners_up=cfg['n_runners_up'], min_markers=cfg['min_markers'], drop_level=cfg['drop_level'],
        flatten=cfg['flatten'], cloud_safe=cfg['cloud_safe'], max_gb=cfg['max_gb'],
        precomputed_path_list=[str(ctx['stats'])] if cfg.get('explicit_path_list') else None)


def execute(scn, sb, ctx, k_i, kk):
    """one execution of the stage under kernel kk; returns (outcome, digest, sched list)"""
    stage = scn['stage']
    cfg = scn['cfg']
    sub = 'r%d' % k_i
    outd = sb.p('out', sub)
    os.makedirs(outd, exist_ok=True)
    sched = dict(kk['sched'])
    n0 = len(KERNEL.calls)
    if stage == 'mapping':
        mcfg = dict(cfg, n_processors=kk.get('n_processors', cfg['n_processors']))
        dcfg = common.mapping_driver_cfg(sb, ctx['paths'], mcfg, tag='out', out_sub=sub)
        ctx['outputs'] = {'json': dcfg['extended_result_path'], 'h5': dcfg['hdf5_result_path'],
                          'csv': dcfg['csv_result_path'], 'log': dcfg['log_path'], 'dcfg': dcfg}
        out, s = harness.run_call(sched, drivers.run_mapping, dcfg)
        dig = None
        if out[0] == 'ok':
            try:
                blob = common.load_json(dcfg['extended_result_path'])
                with open(dcfg['csv_result_path']) as f:
                    csv_rows = [ln for ln in f.read().splitlines() if not ln.startswith('#')]
                dig = [harness.json_digest(blob), harness.h5_digest(dcfg['hdf5_result_path']),
                       model.canonical_json(csv_rows)]
            except (OSError, ValueError, KeyError) as e:
                dig = 'outputs-unreadable-after-success: %s' % type(e).__name__
    elif stage == 'mapping_mgr':
        ctx['outputs'] = {}
        if ctx['cache'] is None:
            return ctx['prep_outcome'], None, []
        out, s = harness.run_call(
            sched, drivers.run_type_assignment, ctx['paths']['query'], ctx['paths']['stats'],
            ctx['cache'], ctx['tax_dict'], sb.p('scratch'), results_output_path=None,
            n_processors=kk.get('n_processors', cfg['n_processors']), chunk_size=cfg['chunk_size'],
            bootstrap_factor=cfg['bootstrap_factor'], bootstrap_iteration=cfg['bootstrap_iteration'],
            rng_seed=cfg['rng_seed'], n_assignments=cfg['n_runners_up'] + 1, max_gb=cfg['max_gb'])
        dig = None
        if out[0] == 'ok':
            from cell_type_mapper.utils.utils import clean_for_json
            dig = harness.json_digest({'results': clean_for_json(out[1])})
            out = ('ok', None)
    elif stage == 'stats':
        dst = os.path.join(outd, 'stats.h5')
        ctx['outputs'] = {'stats': dst}
        out, s = harness.run_call(sched, drivers.run_precompute, ctx['ref_paths'], ctx['tax_dict'], dst,
                                  sb.p('scratch'), rows_at_a_time=cfg['rows_at_a_time'],
                                  n_processors=cfg['n_processors'])
        dig = harness.h5_digest(dst) if out[0] == 'ok' else None
    elif stage == 'refmarkers':
        ctx['outputs'] = {'refmarkers': os.path.join(outd, 'reference_markers.h5')}
        out, s = harness.run_call(sched, drivers.run_reference_markers, [ctx['stats']], outd,
                                  sb.p('scratch'), n_processors=cfg['n_processors'],
                                  max_gb=cfg['max_gb'], exact_penetrance=cfg['exact_penetrance'],
                                  n_valid=cfg['n_valid'], p_th=cfg['p_th'])
        dig = harness.h5_digest(os.path.join(outd, 'reference_markers.h5')) if out[0] == 'ok' else None
    elif stage == 'pmask':
        dst = os.path.join(outd, 'pmask.h5')
        ctx['outputs'] = {'pmask': dst}
        out, s = harness.run_call(sched, drivers.run_p_value_mask, ctx['stats'], dst, sb.p('scratch'),
                                  p_th=cfg['p_th'], n_per=cfg['n_per'],
                                  n_processors=cfg['n_processors'])
        dig = harness.h5_digest(dst) if out[0] == 'ok' else None
    elif stage == 'pmask_markers':
        if ctx['prep_outcome'][0] != 'ok':
            return ctx['prep_outcome'], None, []
        dst = os.path.join(outd, 'markers_from_mask.h5')
        ctx['outputs'] = {'refmarkers': dst}
        out, s = harness.run_call(sched, drivers.run_markers_from_p_mask, ctx['stats'], ctx['mask'], dst,
                                  sb.p('scratch'), n_processors=cfg['n_processors'],
                                  max_gb=max(cfg['max_gb'], 1e-5), n_valid=cfg['n_valid'])
        dig = harness.h5_digest(dst) if out[0] == 'ok' else None
    elif stage == 'qmarkers':
        if ctx['prep_outcome'][0] != 'ok':
            return ctx['prep_outcome'], None, []
        dst = os.path.join(outd, 'qm.json')
        ctx['outputs'] = {'qmarkers': dst}
        if cfg['behemoth_cutoff'] == 5000000:
            out, s = harness.run_call(sched, drivers.run_query_markers, [ctx['refm']], dst,
                                      sb.p('scratch'), n_processors=cfg['n_processors'],
                                      n_per_utility=cfg['n_per_utility'],
                                      query_path=sb.p('in', 'q.h5ad') if cfg['q_subset'] else None)
            dig = harness.json_digest(dst) if out[0] == 'ok' else None
        else:
            out, s = harness.run_call(sched, drivers.run_marker_lookup, [ctx['refm']],
                                      ctx.get('q_genes') or list(ctx['W'].genes), sb.p('scratch'),
                                      n_processors=cfg['n_processors'],
                                      n_per_utility=cfg['n_per_utility'],
                                      behemoth_cutoff=cfg['behemoth_cutoff'])
            dig = None
            if out[0] == 'ok':
                dig = harness.json_digest(out[1])
                out = ('ok', None)
    elif stage == 'otf':
        dcfg = otf_driver_cfg(sb, ctx, cfg, outd, n_processors=kk.get('n_processors', cfg['n_processors']))
        ctx['outputs'] = {'json': dcfg['extended_result_path'], 'csv': dcfg['csv_result_path'], 'dcfg': dcfg}
        out, s = harness.run_call(sched, drivers.run_otf, dcfg)
        dig = None
        if out[0] == 'ok':
            try:
                blob = common.load_json(dcfg['extended_result_path'])
                with open(dcfg['csv_result_path']) as f:
                    csv_rows = [ln for ln in f.read().splitlines() if not ln.startswith('#')]
                dig = [harness.json_digest(blob), model.canonical_json(csv_rows)]
            except (OSError, ValueError, KeyError) as e:
                dig = 'outputs-unreadable-after-success: %s' % type(e).__name__
    else:
        dst = os.path.join(outd, 't.h5')
        ctx['outputs'] = {'transposed': dst}
        out, s = harness.run_call(sched, drivers.run_transpose_v2, ctx['mat_path'], dst, sb.p('scratch'),
                                  ctx['n_cols'], use_data=scn['mat']['use_data'],
                                  max_gb=cfg['max_gb'], n_processors=kk.get('n_processors', cfg['n_processors']))
        dig = harness.h5_digest(dst) if out[0] == 'ok' else None
    scheds = KERNEL.calls[n0:]
    return out, dig, scheds


