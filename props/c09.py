"""
C09 -- reference statistics equal direct computation and are additive.

The real statistics stage under the simulated kernel: reference cells spread over 1-3 files, three
encodings, rows_at_a_time from 1 to beyond the row count, 1-6 workers, any schedule, raw or
pre-normalised input, unlabelled cells, clusters of one cell, clusters scattered over files and
chunks.  Oracle: direct per-cluster computation through the written file's own cluster-to-row and
gene-name tables.  Relations: two partitions of the same data agree; collapsing to a coarser hierarchy
equals the model on that hierarchy; merging per-dataset files keeps the row of the dataset with most cells.
"""
import json
import os
import random

import numpy as np

from sim import drivers, harness, kernel, model, world
from sim.kernel import KERNEL
from . import common

ID = 'C09'
LEVEL = 'exploration'
QUOTA = {'quick': 700, 'thorough': 8000}
BUDGET = {'quick': 100, 'thorough': 900}
RULE = ('scenario = generated reference (clusters of one cell, unlabelled cells, exact CPM=1 entries planted) written as '
        '1-3 h5ad files in a drawn encoding, run through the real statistics stage under two different partitions '
        '(files x rows_at_a_time x workers x schedule), then truncated to a coarser hierarchy and merged with a second '
        'dataset; non-trivial = at least one run used >= 2 workers and >= 2 chunks; distinct by hash of the scenario')
ASSUMPTIONS = ['counts (n_cells, gt0, gt1, ge1) are compared exactly, sums and sums of squares to 1e-10 relative',
               'an entry with |log2(CPM+1) - 1| < 2e-6 and CPM != 1 would be undecided for the threshold counts; integer '
               'counts with the generated totals never land there (exact CPM = 1 entries are planted and judged)']


def gen(rng, tier, idx):
    wp = world.draw_world_params(rng, cells_per_leaf=[1, rng.choice([1, 3, 6])],
                                 n_unlabelled=rng.choice([0, 2, 5]), single_top=rng.random() < 0.2)
    wp['depth'] = rng.choice([1, 2, 3, 4])
    parts = []
    for _ in range(2):
        parts.append({'n_files': rng.randint(1, 3), 'split_seed': rng.randrange(2 ** 31),
                      'encoding': rng.choice(['dense', 'csr', 'csc']),
                      'rows_at_a_time': rng.choice([1, 2, 3, 5, 9, 40]), 'n_processors': rng.randint(1, 6),
                      'sched': common.draw_sched(rng),
                      # inputs staged into the scratch directory first (library option), and input files that share a
                      # base name in different directories (donor_0/expression.h5ad, donor_1/expression.h5ad)
                      'copy_data_over': rng.random() < 0.3, 'same_basename': rng.random() < 0.35})
    return {'wp': wp, 'parts': parts, 'normalised': rng.random() < 0.3, 'plant_cpm1': rng.random() < 0.5,
            'plant_near_cpm1': rng.random() < 0.3, 'repack_before_truncation': rng.random() < 0.4, 'seed': rng.randrange(2 ** 31), 'kcfg': common.draw_kernel_cfg(rng)}


def exact_stats(X, labels, leaves, normalised):
    """direct computation; threshold counts from exact integer arithmetic for raw input"""
    n_g = X.shape[1]
    out = {'n_cells': np.zeros(len(leaves), dtype=int), 'sum': np.zeros((len(leaves), n_g)),
           'sumsq': np.zeros((len(leaves), n_g)), 'gt0': np.zeros((len(leaves), n_g), dtype=int),
           'gt1': np.zeros((len(leaves), n_g), dtype=int), 'ge1': np.zeros((len(leaves), n_g), dtype=int)}
    idx = {lf: i for i, lf in enumerate(leaves)}
    l2 = X if normalised else model.log2cpm(X)
    for r, lab in enumerate(labels):
        if lab is None or lab not in idx:
            continue
        i = idx[lab]
        out['n_cells'][i] += 1
        out['sum'][i] += l2[r]
        out['sumsq'][i] += l2[r] ** 2
        if normalised:
            out['gt0'][i] += (l2[r] > 0)
            out['gt1'][i] += (l2[r] > 1.0)
            out['ge1'][i] += (l2[r] >= 1.0)
        else:
            x = X[r].astype(np.int64)
            tot = int(x.sum())
            out['gt0'][i] += (x > 0)
            out['gt1'][i] += (x * 1000000 > tot)
            out['ge1'][i] += ((x * 1000000 >= tot) & (x > 0))
    return out


def read_stats(path):
    import h5py
    with h5py.File(path, 'r') as f:
        d = {k: f[k][()] for k in ('n_cells', 'sum', 'sumsq', 'gt0', 'gt1', 'ge1')}
        d['cluster_to_row'] = json.loads(f['cluster_to_row'][()].decode())
        d['col_names'] = json.loads(f['col_names'][()].decode())
        d['tree'] = json.loads(f['taxonomy_tree'][()].decode()) if 'taxonomy_tree' in f else None
    return d


def compare(got, want, leaves, genes, what):
    """got: file contents; want: model arrays ordered like leaves/genes"""
    bad = []
    if sorted(got['cluster_to_row']) != sorted(leaves):
        return ['%s: cluster table lists %r, taxonomy leaves are %r' % (what, sorted(got['cluster_to_row']), sorted(leaves))]
    if sorted(got['col_names']) != sorted(genes):
        return ['%s: gene table differs from the input genes' % what]
    rows = [got['cluster_to_row'][lf] for lf in leaves]
    cols = [got['col_names'].index(g) for g in genes]
    for k in ('n_cells', 'gt0', 'gt1', 'ge1'):
        g = got[k][rows] if k == 'n_cells' else got[k][rows][:, cols]
        if not np.array_equal(np.asarray(g).astype(np.int64), want[k].astype(np.int64)):
            where = np.argwhere(np.asarray(g).astype(np.int64) != want[k].astype(np.int64))[0].tolist()
            bad.append('%s: %s differs from direct computation at %r: file %r, direct %r'
                       % (what, k, where, np.asarray(g)[tuple(where)].item(), want[k][tuple(where)].item()))
            return bad
    for k in ('sum', 'sumsq'):
        g = got[k][rows][:, cols]
        if not np.allclose(g, want[k], rtol=1e-10, atol=1e-10):
            where = np.unravel_index(np.argmax(np.abs(g - want[k])), g.shape)
            bad.append('%s: %s differs from direct computation at %r: file %r, direct %r'
                       % (what, k, [int(x) for x in where], float(g[where]), float(want[k][where])))
            return bad
    return bad


def write_split(sb, X, ids, genes, part, tag):
    n = len(ids)
    r = random.Random(part['split_seed'])
    k = min(part['n_files'], n)
    cuts = sorted(r.sample(range(1, n), k - 1)) if k > 1 else []
    bounds = [0] + cuts + [n]
    paths = []
    for i in range(len(bounds) - 1):
        a, b = bounds[i], bounds[i + 1]
        if part.get('same_basename'):
            os.makedirs(sb.p('in', 'donor_%s_%d' % (tag, i)), exist_ok=True)
            p = sb.p('in', 'donor_%s_%d' % (tag, i), 'expression.h5ad')
        else:
            p = sb.p('in', 'ref_%s_%d.h5ad' % (tag, i))
        world.write_h5ad(p, X[a:b], ids[a:b], genes, encoding=part['encoding'])
        paths.append(p)
    return paths


def run(scn, sb):
    res = {'violations': [], 'probes': {}, 'faults': {}, 'interleavings': [], 'not_judged': {}, 'evaluations': 0}
    viol = res['violations']
    W = world.make_world(scn['wp'])
    r = np.random.default_rng(scn['seed'])
    X = W.ref_X.copy()
    labels = list(W.ref_labels)
    if scn['plant_cpm1'] and not scn['normalised'] and X.shape[1] >= 3:
        # a cell whose total is exactly 1e6: counts of 1 are exactly 1 CPM, counts of 2 are 2 CPM
        i = int(r.integers(0, X.shape[0]))
        X[i] = 0
        X[i, 0] = 1
        X[i, 1] = 2
        X[i, 2] = 1000000 - 3
        res['probes']['exact_cpm1_planted'] = 1
    if scn.get('plant_near_cpm1') and not scn['normalised'] and X.shape[1] >= 3 and X.shape[0] >= 2:
        # cells whose single count sits 10-20 ppm off 1 CPM, on either side (outside the code's own float tolerance of
        # 1e-6 in log2 space, which is not probed: see ASSUMPTIONS)
        for tot in (1000010, 999990, 1000020)[:int(r.integers(1, 4))]:
            i = int(r.integers(0, X.shape[0]))
            X[i] = 0
            X[i, 0] = 1
            X[i, 1] = 2
            X[i, 2] = tot - 3
        res['probes']['near_cpm1_planted'] = 1
    normalised = scn['normalised']
    if normalised:
        X = model.log2cpm(X)
        if scn['plant_cpm1']:
            X[int(r.integers(0, X.shape[0])), 0] = 1.0
            res['probes']['exact_log2_1_planted'] = 1
        if scn.get('plant_near_cpm1'):
            for dv in (8.0e-6, -8.0e-6)[:int(r.integers(1, 3))]:
                X[int(r.integers(0, X.shape[0])), int(r.integers(0, X.shape[1]))] = 1.0 + dv
            res['probes']['near_log2_1_planted'] = 1
    tax = W.tax
    leaves = sorted(tax.leaves)
    want = exact_stats(X, labels, leaves, normalised)
    tax_dict = tax.to_dict(W.leaf_cells())
    common.begin(sb, scn['kcfg'])
    try:
        files = []
        scheds = []
        for pi, part in enumerate(scn['parts']):
            paths = write_split(sb, X, W.ref_ids, W.genes, part, str(pi))
            dst = sb.p('out', 'stats_%d.h5' % pi)
            o, s = harness.run_call(dict(part['sched']), drivers.run_precompute, paths, tax_dict, dst,
                                    sb.p('scratch'), rows_at_a_time=part['rows_at_a_time'],
                                    n_processors=part['n_processors'],
                                    normalization='log2CPM' if normalised else 'raw',
                                    copy_data_over=bool(part.get('copy_data_over')))
            scheds.append(s)
            res['evaluations'] += 1
            what = 'partition %d (%d files, %s, rows_at_a_time %d, %d workers, %s)' % (
                pi, part['n_files'], part['encoding'], part['rows_at_a_time'], part['n_processors'],
                part['sched']['policy'])
            if o[0] != 'ok':
                viol.append({'cls': 'statistics-stage-raises', 'detail': '%s: %s' % (what, o[1][:300])})
                continue
            got = read_stats(dst)
            files.append((dst, got))
            for b in compare(got, want, leaves, W.genes, what):
                viol.append({'cls': 'differs-from-direct-computation', 'detail': b})
            if got['tree'] is None:
                viol.append({'cls': 'taxonomy-missing', 'detail': what})
            else:
                t = {k: v for k, v in got['tree'].items() if k != 'metadata'}
                if t != {k: v for k, v in tax_dict.items() if k != 'metadata'}:
                    viol.append({'cls': 'taxonomy-differs', 'detail': '%s: stored taxonomy differs from the input' % what})
        common.sched_stats(res, scheds)
        if len(files) == 2:
            a, b = files[0][1], files[1][1]
            for k in ('n_cells', 'gt0', 'gt1', 'ge1'):
                ra = [a['cluster_to_row'][lf] for lf in leaves]
                rb = [b['cluster_to_row'][lf] for lf in leaves]
                if not np.array_equal(a[k][ra], b[k][rb]):
                    viol.append({'cls': 'partition-dependent', 'detail': '%s differs between the two partitions' % k})
        # ---- coarser hierarchy
        if files and len(tax.hierarchy) >= 2:
            from cell_type_mapper.diff_exp.truncate_precompute import truncate_precomputed_stats_file
            keep = r.integers(1, len(tax.hierarchy))
            new_h = tax.hierarchy[:int(keep)]
            if int(keep) >= 2 and r.random() < 0.5:
                drop_i = int(r.integers(0, int(keep) - 1))
                new_h = [lv for i, lv in enumerate(new_h) if i != drop_i]
            dst = sb.p('out', 'truncated.h5')
            trunc_src = files[0][0]
            repacked = ''
            if scn.get('repack_before_truncation'):
                # an equivalent statistics file whose rows were re-packed: rows permuted, cluster_to_row keys written
                # in another order than the rows (the file addresses clusters through that table, nothing else)
                import h5py
                import shutil as _sh
                trunc_src = sb.p('out', 'stats_repacked.h5')
                _sh.copy(files[0][0], trunc_src)
                with h5py.File(trunc_src, 'a') as f_:
                    c2r = json.loads(f_['cluster_to_row'][()].decode())
                    names = sorted(c2r)
                    perm = [int(x) for x in r.permutation(len(names))]
                    new_c2r = {}
                    order = [int(x) for x in r.permutation(len(names))]
                    for k_ in ('n_cells', 'sum', 'sumsq', 'gt0', 'gt1', 'ge1'):
                        old_arr = f_[k_][()]
                        new_arr = np.zeros_like(old_arr)
                        for j, nm in enumerate(names):
                            new_arr[perm[j]] = old_arr[c2r[nm]]
                        del f_[k_]
                        f_.create_dataset(k_, data=new_arr)
                    for j in order:
                        new_c2r[names[j]] = perm[j]
                    del f_['cluster_to_row']
                    f_.create_dataset('cluster_to_row', data=json.dumps(new_c2r).encode('utf-8'))
                repacked = ' (input rows re-packed)'
                res['probes']['truncation_of_a_repacked_file'] = 1
            o = drivers.outcome_of(truncate_precomputed_stats_file, input_path=trunc_src, output_path=dst,
                                   new_hierarchy=list(new_h))
            res['evaluations'] += 1
            what = 'truncation of %r to %r%s' % (tax.hierarchy, new_h, repacked)
            if o[0] != 'ok':
                viol.append({'cls': 'truncation-raises', 'detail': '%s: %s' % (what, o[1][:300])})
            else:
                new_leaf = new_h[-1]
                coarse_leaves = sorted(tax.nodes[new_leaf])
                clab = [None if l is None else tax.ancestor(tax.leaf_level, l, new_leaf) for l in labels]
                cwant = exact_stats(X, clab, coarse_leaves, normalised)
                got = read_stats(dst)
                for b in compare(got, cwant, coarse_leaves, W.genes, what):
                    viol.append({'cls': 'truncation-differs-from-direct-computation', 'detail': b})
                if got['tree'] is not None and got['tree'].get('hierarchy') != list(new_h):
                    viol.append({'cls': 'truncation-differs-from-direct-computation',
                                 'detail': '%s: stored hierarchy %r' % (what, got['tree'].get('hierarchy'))})
                res['probes']['truncations'] = 1
        # ---- merge with a second dataset (a subset of the cells, so cluster sizes differ)
        if files:
            from cell_type_mapper.diff_exp.precompute_utils import merge_precompute_files
            keep_mask = r.random(X.shape[0]) < 0.5
            extra = r.integers(0, 50, size=X.shape).astype(float) if not normalised else X * 0.5
            X2 = np.where(keep_mask[:, None], extra, X)
            lab2 = [l if keep_mask[i] else None for i, l in enumerate(labels)]
            ids2 = W.ref_ids
            cells2 = {lf: [c for c, l in zip(ids2, lab2) if l == lf] for lf in tax.leaves}
            p2 = sb.p('in', 'second.h5ad')
            world.write_h5ad(p2, X2, ids2, W.genes, encoding='csr')
            dst2 = sb.p('out', 'stats_second.h5')
            o, s = harness.run_call({'policy': 'fifo', 'seed': 0}, drivers.run_precompute, [p2],
                                    tax.to_dict(cells2), dst2, sb.p('scratch'), rows_at_a_time=5, n_processors=2,
                                    normalization='log2CPM' if normalised else 'raw')
            if o[0] == 'ok':
                merged = sb.p('out', 'merged.h5')
                o2 = drivers.outcome_of(merge_precompute_files, precompute_path_list=[files[0][0], dst2],
                                        output_path=merged)
                res['evaluations'] += 1
                if o2[0] != 'ok':
                    viol.append({'cls': 'merge-raises', 'detail': o2[1][:300]})
                else:
                    g1, g2, gm = files[0][1], read_stats(dst2), read_stats(merged)
                    for lf in leaves:
                        r1, r2, rm = g1['cluster_to_row'][lf], g2['cluster_to_row'][lf], gm['cluster_to_row'][lf]
                        n1, n2 = int(g1['n_cells'][r1]), int(g2['n_cells'][r2])
                        cands = []
                        if n1 >= n2:
                            cands.append((g1, r1))
                        if n2 >= n1:
                            cands.append((g2, r2))
                        ok = any(int(gm['n_cells'][rm]) == int(src['n_cells'][rr]) and all(
                            np.array_equal(gm[k][rm], src[k][rr]) for k in ('sum', 'sumsq', 'gt0', 'gt1', 'ge1'))
                            for src, rr in cands)
                        if not ok:
                            viol.append({'cls': 'merge-keeps-wrong-row',
                                         'detail': 'cluster %r: datasets have %d and %d cells; merged row has %d cells '
                                                   'and does not equal the row of the larger one'
                                                   % (lf, n1, n2, int(gm['n_cells'][rm]))})
                            break
                    res['probes']['merges'] = 1
        res['nontrivial'] = any(s.max_inflight >= 2 for s in scheds)
        res['key'] = model.canonical_json({k: v for k, v in scn.items() if k != 'kcfg'})
        res['sample'] = {'hierarchy': tax.hierarchy, 'cells': int(X.shape[0]), 'genes': int(X.shape[1]),
                         'normalised': normalised,
                         'partitions': [{k: p[k] for k in ('n_files', 'encoding', 'rows_at_a_time', 'n_processors')}
                                        for p in scn['parts']]}
        res['ticks'] = KERNEL.n_ticks
        return res
    finally:
        sb.end()


def shrink(scn, violation=None):
    for wp in common.shrink_numbers(scn['wp'], ['n_leaves', 'depth', 'n_genes', 'n_unlabelled'],
                                    lows={'n_unlabelled': 0}):
        c = dict(scn)
        c['wp'] = wp
        yield c
    for i, p in enumerate(scn['parts']):
        for pp in common.shrink_numbers(p, ['n_files', 'n_processors', 'rows_at_a_time']):
            c = dict(scn)
            c['parts'] = list(scn['parts'])
            c['parts'][i] = pp
            yield c
