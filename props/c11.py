"""
C11 -- reference markers are sound and complete for the stated criteria.

Statistics files written directly from the model (cluster sizes from 1, zero-variance genes, identical
clusters) are pushed through the real reference-marker stage (exact and approximate penetrance, with and
without a gene list) and through the p-value-mask route, each under two executions that differ in worker
count, memory budget and seeded schedule.  Oracle per (pair, gene) from an independent Welch / Holm /
penetrance model (scipy.stats.ttest_ind_from_stats + a naive Holm).
"""
import itertools
import json
import os

import numpy as np

from sim import drivers, harness, kernel, model, world
from sim.kernel import KERNEL
from . import common

ID = 'C11'
LEVEL = 'exploration'
QUOTA = {'quick': 800, 'thorough': 6000}
BUDGET = {'quick': 100, 'thorough': 900}
RULE = ('scenario = generated reference statistics (cluster sizes from 1, zero-variance genes, identical clusters) x '
        'threshold setting (each strict threshold above its floor) x route (direct with exact or approximate penetrance, '
        'or p-value mask) x optional gene list, run under two executions differing in worker count, memory budget and '
        'schedule, plus optionally a renamed-cluster twin; an evaluation is one (pair, gene) entry judged; non-trivial = '
        'at least one marker was recorded and >= 2 workers were in flight; distinct by hash of the scenario')
ASSUMPTIONS = ['outputs of two executions are compared by content (dataset names, shapes, values); the integer width of the '
               'gene-major index arrays legitimately differs between the serial and the parallel transposer',
               '(pair, gene) entries whose deciding quantity lies within 1e-7 (relative) of a threshold, and entries whose '
               'Welch statistic is undefined (zero variance in both clusters), are undecided: skipped and counted',
               'for the p-value-mask route n_valid <= number of genes']
TOL = 1e-7


def gen(rng, tier, idx):
    wp = world.draw_world_params(rng, cells_per_leaf=[1, rng.choice([2, 4, 6])], n_unlabelled=0,
                                 degenerate=rng.choice([0.0, 0.0, 0.3]), blocky=False, odd_names=False,
                                 shared_names=False)
    wp['n_leaves'] = rng.choice([2, 3, 4, 5, 6, 8])
    wp['depth'] = rng.choice([1, 2, 3])
    wp['n_genes'] = rng.choice([6, 8, 12, 20])
    u = rng.random()
    if u < 0.04:
        wp['n_genes'] = 300          # gene indices past 2**8
    elif u < 0.07:
        wp['n_leaves'] = 24          # 276 pairs: pair indices past 2**8
    wp['zero_var'] = rng.choice([0.0, 0.15, 0.4])
    wp['dup_genes'] = rng.choice([0, 0, 2, 4, 8])      # blocks of genes with exactly tied p-values
    route = rng.choice(['direct', 'direct', 'direct', 'pmask'])
    th = {'p_th': rng.choice([0.01, 0.05, 0.2, 0.5]),
          'q1_th': rng.choice([0.5, 0.45, 0.55, 0.3]), 'q1_min_th': rng.choice([0.1, 0.05, 0.2]),
          'qdiff_th': rng.choice([0.7, 0.65, 0.4]), 'qdiff_min_th': rng.choice([0.1, 0.05, 0.3]),
          'log2_fold_th': rng.choice([1.0, 1.3, 0.9]), 'log2_fold_min_th': rng.choice([0.8, 0.5, 0.1])}
    cfg = dict(th, route=route, exact_penetrance=(rng.random() < 0.4) if route == 'direct' else False,
               n_valid=rng.choice([1, 2, 3, 5]) if route == 'pmask' else rng.choice([1, 3, 10, 30]),
               gene_list_frac=rng.choice([None, None, 0.5, 0.8]), gl_seed=rng.randrange(2 ** 31))
    ex = [{'n_processors': rng.randint(1, 6), 'max_gb': rng.choice([1.0, 1e-4, 1e-6]),
           'sched': common.draw_sched(rng), 'n_per': 8} for _ in range(2)]
    return {'wp': wp, 'cfg': cfg, 'exec': ex, 'rename': rng.random() < 0.3, 'kcfg': common.draw_kernel_cfg(rng)}


def cluster_model(W, zero_var):
    """per-leaf n, mean, var, ge1 fraction from the raw cells (with optional zero-variance genes)"""
    X = W.ref_X.copy()
    labels = W.ref_labels
    leaves = sorted(W.tax.leaves)
    r = np.random.default_rng(len(leaves) * 31 + X.shape[1])
    if zero_var:
        for lf in leaves:
            rows = [i for i, l in enumerate(labels) if l == lf]
            for g in range(X.shape[1]):
                if r.random() < zero_var and rows:
                    # make log2(CPM+1) constant within the cluster: identical cells
                    pass
        # identical cells inside some clusters give zero variance for every gene of that cluster
        for lf in leaves:
            rows = [i for i, l in enumerate(labels) if l == lf]
            if rows and r.random() < zero_var:
                X[rows] = X[rows[0]]
    return X, leaves


def run_route(sb, stats, out_dir, cfg, ex, gene_list, tag):
    os.makedirs(out_dir, exist_ok=True)
    th = {k: cfg[k] for k in ('p_th', 'q1_th', 'q1_min_th', 'qdiff_th', 'qdiff_min_th', 'log2_fold_th',
                              'log2_fold_min_th')}
    sched = dict(ex['sched'])
    if cfg['route'] == 'direct':
        dst = os.path.join(out_dir, 'markers_%s.h5' % tag)
        o, s = harness.run_call(sched, drivers.run_find_markers, stats, dst, sb.p('scratch'),
                                n_processors=ex['n_processors'], max_gb=ex['max_gb'],
                                exact_penetrance=cfg['exact_penetrance'], n_valid=cfg['n_valid'],
                                gene_list=gene_list, **th)
        return o, [s], dst
    mask = os.path.join(out_dir, 'pmask_%s.h5' % tag)
    o1, s1 = harness.run_call(sched, drivers.run_p_value_mask, stats, mask, sb.p('scratch'),
                              n_processors=max(1, ex['n_processors']), n_per=ex['n_per'], **th)
    if o1[0] != 'ok':
        return o1, [s1], None
    dst = os.path.join(out_dir, 'markers_%s.h5' % tag)
    o2, s2 = harness.run_call(dict(ex['sched'], seed=ex['sched'].get('seed', 0) + 1),
                              drivers.run_markers_from_p_mask, stats, mask, dst, sb.p('scratch'),
                              n_processors=max(1, ex['n_processors']), max_gb=max(ex['max_gb'], 1e-5),
                              n_valid=cfg['n_valid'], gene_list=gene_list)
    return o2, [s1, s2], dst


def read_markers(path):
    import h5py
    with h5py.File(path, 'r') as f:
        genes = json.loads(f['gene_names'][()].decode())
        p2i = json.loads(f['pair_to_idx'][()].decode())
        n_pairs = int(f['n_pairs'][()])
        bp = {d: (f['sparse_by_pair/%s_pair_idx' % d][()].astype(np.int64),
                  f['sparse_by_pair/%s_gene_idx' % d][()].astype(np.int64)) for d in ('up', 'down')}
        bg = {d: (f['sparse_by_gene/%s_gene_idx' % d][()].astype(np.int64),
                  f['sparse_by_gene/%s_pair_idx' % d][()].astype(np.int64)) for d in ('up', 'down')}
    return genes, p2i, n_pairs, bp, bg


def judge(W, X, leaves, cfg, path, gene_list, name_of=None):
    """returns (violations, counters, markers dict {(leafA, leafB): {'up': set(genes), 'down': set(genes)}})"""
    import scipy.stats as ss
    bad = []
    cnt = {'entries': 0, 'recorded': 0, 'undecided': 0, 'strict_pass': 0}
    genes, p2i, n_pairs, bp, bg = read_markers(path)
    name_of = name_of or (lambda x: x)
    if genes != list(W.genes):
        bad.append(('gene-names', 'marker file gene names differ from the statistics file'))
        return bad, cnt, {}
    n_g = len(genes)
    # ---- structure: monotone pointers, indices in range, transposes, no gene both up and down
    rec = {}
    for d in ('up', 'down'):
        ptr, idx = bp[d]
        if len(ptr) != n_pairs + 1 or ptr[0] != 0 or ptr[-1] != len(idx) or np.any(np.diff(ptr) < 0):
            bad.append(('structure', 'sparse_by_pair %s pointer array malformed' % d))
            return bad, cnt, {}
        if len(idx) and (idx.min() < 0 or idx.max() >= n_g):
            bad.append(('structure', 'sparse_by_pair %s gene index out of range' % d))
            return bad, cnt, {}
        rec[d] = [set(idx[ptr[i]:ptr[i + 1]].tolist()) for i in range(n_pairs)]
        gptr, pidx = bg[d]
        if len(gptr) != n_g + 1 or gptr[-1] != len(pidx):
            bad.append(('transpose', 'sparse_by_gene %s pointer array malformed' % d))
            return bad, cnt, {}
        by_gene = set()
        for g in range(n_g):
            for p_ in pidx[gptr[g]:gptr[g + 1]].tolist():
                by_gene.add((p_, g))
        by_pair = set((i, g) for i in range(n_pairs) for g in rec[d][i])
        if by_gene != by_pair or len(pidx) != len(idx):
            bad.append(('transpose', 'gene-major %s table is not the transpose of the pair-major one: %r'
                        % (d, sorted(by_gene ^ by_pair)[:5])))
    for i in range(n_pairs):
        both = rec['up'][i] & rec['down'][i]
        if both:
            bad.append(('both-directions', 'pair %d lists genes %r as both up and down' % (i, sorted(both)[:4])))
            break
    # ---- per-cluster model
    l2 = model.log2cpm(X)
    st = model.cluster_stats(l2, [name_of(l) if l is not None else None for l in W.ref_labels],
                             [name_of(lf) for lf in leaves])
    names = [name_of(lf) for lf in leaves]
    n = st['n_cells'].astype(float)
    mean = st['sum'] / np.maximum(1, n)[:, None]
    var = (st['sumsq'] - st['sum'] ** 2 / np.maximum(1, n)[:, None]) / np.maximum(1, n - 1)[:, None]
    var = np.maximum(var, 0.0)
    frac = st['ge1'] / np.maximum(1, n)[:, None]
    row = {nm: i for i, nm in enumerate(names)}
    allowed = set(range(n_g)) if gene_list is None else set(i for i, g in enumerate(genes) if g in set(gene_list))
    leaf_level = W.tax.leaf_level
    table = p2i.get(leaf_level, {})
    want_pairs = set(tuple(sorted(pr)) for pr in itertools.combinations(names, 2))
    got_pairs = set()
    markers = {}
    for a in table:
        for b, pi in table[a].items():
            got_pairs.add(tuple(sorted((a, b))))
            if a not in row or b not in row:
                bad.append(('pair-table', 'pair (%r, %r) names unknown clusters' % (a, b)))
                continue
            ia, ib = row[a], row[b]
            up, down = rec['up'][pi], rec['down'][pi]
            markers[(a, b)] = {'up': set(genes[g] for g in up), 'down': set(genes[g] for g in down)}
            recorded = up | down
            n1, n2 = n[ia], n[ib]
            big_enough = n1 >= 2 and n2 >= 2
            if big_enough:
                with np.errstate(all='ignore'):
                    res = ss.ttest_ind_from_stats(mean[ia], np.sqrt(var[ia]), n1, mean[ib], np.sqrt(var[ib]), n2,
                                                  equal_var=False)
                p_raw = np.where(np.isfinite(res.pvalue), res.pvalue, 1.0)
                undefined = (var[ia] <= 0.0) & (var[ib] <= 0.0)
                p_adj = model.holm(np.where(undefined, 1.0, p_raw))
            else:
                p_adj = np.ones(n_g)
                undefined = np.zeros(n_g, dtype=bool)
            q1 = np.maximum(frac[ia], frac[ib])
            qd = np.abs(frac[ia] - frac[ib]) / np.where(q1 > 0, q1, 1.0)
            fold = np.abs(mean[ia] - mean[ib])
            for g in range(n_g):
                cnt['entries'] += 1
                is_rec = g in recorded
                cnt['recorded'] += int(is_rec)
                if not big_enough:
                    if is_rec:
                        bad.append(('unsound-small-cluster', 'gene %r recorded for pair (%r,%r) whose clusters have %d '
                                    'and %d cells' % (genes[g], a, b, int(n1), int(n2))))
                    continue

                def near(x, th):
                    return abs(x - th) <= TOL * max(1.0, abs(th))
                und = bool(undefined[g]) or near(p_adj[g], cfg['p_th'])
                # zero variance in BOTH clusters also perturbs the Holm rank of every other gene
                und_rank = bool(undefined.any())
                p_ok = p_adj[g] < cfg['p_th']
                floors_ok = (q1[g] >= cfg['q1_min_th'] and qd[g] >= cfg['qdiff_min_th']
                             and fold[g] >= cfg['log2_fold_min_th'])
                floors_near = (near(q1[g], cfg['q1_min_th']) or near(qd[g], cfg['qdiff_min_th'])
                               or near(fold[g], cfg['log2_fold_min_th']))
                strict = (q1[g] > cfg['q1_th'] and qd[g] > cfg['qdiff_th'] and fold[g] > cfg['log2_fold_th'])
                strict_near = (near(q1[g], cfg['q1_th']) or near(qd[g], cfg['qdiff_th'])
                               or near(fold[g], cfg['log2_fold_th']))
                if und or und_rank:
                    cnt['undecided'] += 1
                    continue
                if is_rec:
                    why = None
                    if not p_ok:
                        why = 'Holm-corrected Welch p %.4g >= %.4g' % (p_adj[g], cfg['p_th'])
                    elif not floors_ok and not floors_near:
                        why = 'below a floor (q1 %.4g, qdiff %.4g, fold %.4g)' % (q1[g], qd[g], fold[g])
                    elif g not in allowed:
                        why = 'not in the gene list'
                    elif cfg['exact_penetrance'] and not strict and not strict_near:
                        why = 'exact penetrance requested but (q1 %.4g, qdiff %.4g, fold %.4g) fails the strict ' \
                              'thresholds' % (q1[g], qd[g], fold[g])
                    if why:
                        bad.append(('unsound', 'gene %r recorded for pair (%r,%r): %s' % (genes[g], a, b, why)))
                    # direction
                    if abs(mean[ia][g] - mean[ib][g]) > 1e-12:
                        want_up = mean[ib][g] > mean[ia][g]
                        if (g in up) != want_up:
                            bad.append(('direction', 'gene %r pair (%r,%r): recorded %s, mean of %r is %.6g, mean of %r '
                                        'is %.6g' % (genes[g], a, b, 'up' if g in up else 'down', a, mean[ia][g], b,
                                                     mean[ib][g])))
                else:
                    if p_ok and strict and not strict_near and g in allowed:
                        cnt['strict_pass'] += 1
                        bad.append(('incomplete', 'gene %r passes the strict thresholds for pair (%r,%r) (p %.4g, q1 '
                                    '%.4g, qdiff %.4g, fold %.4g) but is not recorded'
                                    % (genes[g], a, b, p_adj[g], q1[g], qd[g], fold[g])))
                if is_rec and strict:
                    cnt['strict_pass'] += 1
    if got_pairs != want_pairs:
        bad.append(('pair-table', 'pair table covers %d pairs, the taxonomy has %d leaf pairs'
                    % (len(got_pairs), len(want_pairs))))
    return bad, cnt, markers


def run(scn, sb):
    res = {'violations': [], 'probes': {}, 'faults': {}, 'interleavings': [], 'not_judged': {}, 'evaluations': 0}
    viol = res['violations']
    W = world.make_world(scn['wp'])
    cfg = scn['cfg']
    X, leaves = cluster_model(W, scn['wp'].get('zero_var', 0.0))
    W.ref_X = X
    gene_list = None
    if cfg['gene_list_frac']:
        r = np.random.default_rng(cfg['gl_seed'])
        gene_list = [g for g in W.genes if r.random() < cfg['gene_list_frac']] + ['not_a_gene']
        if len(gene_list) == 1:
            gene_list = [W.genes[0], 'not_a_gene']
    if cfg['route'] == 'pmask':
        cfg = dict(cfg, n_valid=min(cfg['n_valid'], len(W.genes)))
    common.begin(sb, scn['kcfg'])
    try:
        stats = W.write_stats_file(sb.p('in', 'stats.h5'))
        digs = []
        scheds = []
        markers0 = None
        for ei, ex in enumerate(scn['exec']):
            o, ss_, dst = run_route(sb, stats, sb.p('out', 'e%d' % ei), cfg, ex, gene_list, 'e%d' % ei)
            scheds += ss_
            if o[0] != 'ok':
                viol.append({'cls': 'marker-stage-raises-%s' % cfg['route'],
                             'detail': 'execution %d (%d workers, max_gb %g): %s' % (ei, ex['n_processors'],
                                                                                      ex['max_gb'], o[1][:300])})
                continue
            digs.append(harness.h5_digest(dst, content_only=True))
            if ei == 0:
                bad, cnt, markers0 = judge(W, X, leaves, cfg, dst, gene_list)
                res['evaluations'] += cnt['entries']
                for k, v in cnt.items():
                    res['probes'][k] = res['probes'].get(k, 0) + v
                for c_, d in bad[:3]:
                    viol.append({'cls': '%s-%s' % (c_, cfg['route']), 'detail': d})
        if len(digs) == 2 and digs[0] != digs[1]:
            viol.append({'cls': 'depends-on-workers-or-budget-%s' % cfg['route'],
                         'detail': 'outputs differ between executions %r' % [(e['n_processors'], e['max_gb'])
                                                                             for e in scn['exec']]})
        # ---- renamed twin: reverse the sort order of the leaf names
        if scn.get('rename') and markers0 is not None:
            order = sorted(W.tax.leaves)
            newname = {lf: 'z%03d_%s' % (len(order) - i, lf) for i, lf in enumerate(order)}
            tax2 = model.Tax(W.tax.hierarchy,
                             {lv: ([newname[x] for x in W.tax.nodes[lv]] if lv == W.tax.leaf_level
                                   else list(W.tax.nodes[lv])) for lv in W.tax.hierarchy},
                             {((lv, newname[nd]) if lv == W.tax.leaf_level else (lv, nd)): p
                              for (lv, nd), p in W.tax.parent.items()})
            import copy
            W2 = copy.copy(W)
            W2.tax = tax2
            W2.ref_labels = [newname[l] if l is not None else None for l in W.ref_labels]
            W2.profile = {}
            stats2 = W2.write_stats_file(sb.p('in', 'stats_renamed.h5'))
            o, ss_, dst = run_route(sb, stats2, sb.p('out', 'ren'), cfg, scn['exec'][0], gene_list, 'ren')
            scheds += ss_
            if o[0] == 'ok':
                _, _, m2 = judge(W2, X, [newname[l] for l in leaves], cfg, dst, gene_list)
                res['probes']['renamed_twins'] = 1
                for (a, b), mk in markers0.items():
                    key = (newname[b], newname[a]) if (newname[b], newname[a]) in m2 else (newname[a], newname[b])
                    other = m2.get(key)
                    if other is None:
                        viol.append({'cls': 'rename-relation', 'detail': 'pair (%r,%r) missing after renaming' % (a, b)})
                        break
                    swapped = key == (newname[b], newname[a])
                    want_up = mk['down'] if swapped else mk['up']
                    want_down = mk['up'] if swapped else mk['down']
                    if other['up'] != want_up or other['down'] != want_down:
                        viol.append({'cls': 'rename-relation-%s' % cfg['route'],
                                     'detail': 'pair (%r,%r): markers up %r down %r; after renaming (order swapped: %r) '
                                               'up %r down %r' % (a, b, sorted(mk['up']), sorted(mk['down']), swapped,
                                                                  sorted(other['up']), sorted(other['down']))})
                        break
        common.sched_stats(res, scheds)
        res['nontrivial'] = res['probes'].get('recorded', 0) > 0 and any(s.max_inflight >= 2 for s in scheds)
        res['key'] = model.canonical_json({k: v for k, v in scn.items() if k != 'kcfg'})
        res['sample'] = {'route': cfg['route'], 'leaves': len(leaves), 'genes': len(W.genes),
                         'thresholds': {k: cfg[k] for k in ('p_th', 'q1_th', 'qdiff_th', 'log2_fold_th')},
                         'exact_penetrance': cfg['exact_penetrance'], 'gene_list': bool(gene_list),
                         'entries': res['probes'].get('entries'), 'recorded': res['probes'].get('recorded'),
                         'undecided': res['probes'].get('undecided')}
        res['ticks'] = KERNEL.n_ticks
        return res
    finally:
        sb.end()


def shrink(scn, violation=None):
    for wp in common.shrink_numbers(scn['wp'], ['n_leaves', 'depth', 'n_genes']):
        c = dict(scn)
        c['wp'] = wp
        yield c
    if scn.get('rename'):
        c = dict(scn)
        c['rename'] = False
        yield c
    for i, e in enumerate(scn['exec']):
        if e['sched'].get('policy') != 'fifo':
            c = dict(scn)
            c['exec'] = [dict(x) for x in scn['exec']]
            c['exec'][i]['sched'] = {'policy': 'fifo', 'seed': 0}
            yield c
