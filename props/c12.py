"""
C12 -- selected query markers cover every cluster pair as far as possible.

Reference-marker files (from the real stage on separable worlds, or synthetic: dense, sparse, pairs with
no marker, pairs short in one or both directions) go through the real query-marker selection with query
gene subsets, per-direction targets and per-parent overrides, under two executions that differ in worker
count, large-parent threshold and seeded schedule (pool and manager dict).  Oracle: a coverage census
computed directly from the file's pair-major arrays and the generator's own tree.
"""
import itertools
import json
import os

import numpy as np
import scipy.sparse as sp

from sim import drivers, harness, kernel, model, world
from sim.kernel import KERNEL
from . import common

ID = 'C12'
LEVEL = 'exploration'
QUOTA = {'quick': 1100, 'thorough': 7000}
BUDGET = {'quick': 100, 'thorough': 900}
RULE = ('scenario = reference-marker table (synthetic with drawn density / empty pairs / one-sided pairs, or produced by '
        'the real stage) x query gene subset x per-direction target and per-parent overrides, selected under two '
        'executions differing in worker count (1-6), large-parent threshold (0 upward) and schedule; an evaluation is one '
        '(parent, leaf pair) coverage check; non-trivial = some pair had fewer markers than twice the target or >= 2 '
        'workers were in flight; distinct by hash of the scenario')
ASSUMPTIONS = ['genes_at_a_time is kept at its default of 1 (the property does not quantify over it; with 3 the selection '
               'was observed to raise "chose gene twice" / pick zero-utility genes -- recorded in DESIGN.md, not judged)',
               'the pairs a parent must discriminate come from the generator\'s own tree: unordered pairs of leaves lying '
               'under two different children of the parent']


def gen(rng, tier, idx):
    wp = world.draw_world_params(rng, cells_per_leaf=[2, rng.choice([3, 5])], blocky=False, degenerate=0.0,
                                 n_unlabelled=0, odd_names=False, shared_names=False)
    wp['n_leaves'] = rng.choice([2, 3, 4, 5, 6, 8, 10])
    wp['depth'] = rng.choice([1, 2, 2, 3, 3, 4])
    wp['n_genes'] = rng.choice([8, 12, 20, 40])
    u = rng.random()
    if u < 0.04:
        wp['n_genes'] = 300          # gene indices past 2**8
    elif u < 0.07:
        wp['n_leaves'] = 24          # 276 pairs: pair indices past 2**8
    src = rng.choice(['synthetic', 'synthetic', 'synthetic', 'stage'])
    syn = {'seed': rng.randrange(2 ** 31), 'density': rng.choice([0.02, 0.1, 0.3, 0.7]),
           'empty_pairs': rng.choice([0.0, 0.2, 0.5]), 'one_sided': rng.choice([0.0, 0.3])}
    cfg = {'n_per_utility': rng.randint(1, 5), 'query_frac': rng.choice([1.0, 0.8, 0.5, 0.2]),
           'q_seed': rng.randrange(2 ** 31), 'override': rng.random() < 0.4, 'genes_at_a_time': 1,
           'warmup_other_target': rng.random() < 0.4}
    ex = [{'n_processors': rng.randint(1, 6), 'behemoth_cutoff': rng.choice([0, 1, 3, 5000000]),
           'sched': common.draw_sched(rng)} for _ in range(2)]
    return {'wp': wp, 'src': src, 'syn': syn, 'cfg': cfg, 'exec': ex, 'kcfg': common.draw_kernel_cfg(rng)}


def write_synthetic_markers(path, W, stats_path, syn):
    """a reference-marker file with drawn content, in the repository's on-disk format"""
    import h5py
    r = np.random.default_rng(syn['seed'])
    leaves = sorted(W.tax.leaves)
    pairs = list(itertools.combinations(leaves, 2))
    n_g = len(W.genes)
    up = np.zeros((len(pairs), n_g), dtype=bool)
    down = np.zeros((len(pairs), n_g), dtype=bool)
    for i in range(len(pairs)):
        if r.random() < syn['empty_pairs']:
            continue
        m = r.random(n_g) < syn['density']
        d = r.random(n_g) < 0.5
        if r.random() < syn['one_sided']:
            d[:] = r.random() < 0.5
        up[i] = m & d
        down[i] = m & ~d
    p2i = {W.tax.leaf_level: {}}
    for i, (a, b) in enumerate(pairs):
        p2i[W.tax.leaf_level].setdefault(a, {})[b] = i
        p2i[W.tax.leaf_level].setdefault(b, {})
    with h5py.File(path, 'w') as f:
        f.create_dataset('gene_names', data=json.dumps(list(W.genes)).encode())
        f.create_dataset('pair_to_idx', data=json.dumps(p2i).encode())
        f.create_dataset('n_pairs', data=len(pairs))
        f.create_dataset('metadata', data=json.dumps({'precomputed_path': str(stats_path)}).encode())
        for name, M in (('up', up), ('down', down)):
            A = sp.csr_matrix(M)
            A.sort_indices()
            T = sp.csr_matrix(M.T)
            T.sort_indices()
            f.create_dataset('sparse_by_pair/%s_pair_idx' % name, data=A.indptr.astype(np.int64))
            f.create_dataset('sparse_by_pair/%s_gene_idx' % name, data=A.indices.astype(np.int64))
            f.create_dataset('sparse_by_gene/%s_gene_idx' % name, data=T.indptr.astype(np.int64))
            f.create_dataset('sparse_by_gene/%s_pair_idx' % name, data=T.indices.astype(np.int64))
    return path


def read_census(path):
    """{frozenset(leafA, leafB): set(gene names)} straight from the pair-major arrays"""
    import h5py
    with h5py.File(path, 'r') as f:
        genes = json.loads(f['gene_names'][()].decode())
        p2i = json.loads(f['pair_to_idx'][()].decode())
        arr = {d: (f['sparse_by_pair/%s_pair_idx' % d][()].astype(np.int64),
                   f['sparse_by_pair/%s_gene_idx' % d][()].astype(np.int64)) for d in ('up', 'down')}
    out = {}
    for lv in p2i:
        for a in p2i[lv]:
            for b, i in p2i[lv][a].items():
                s = {}
                for d in ('up', 'down'):
                    ptr, idx = arr[d]
                    s[d] = set(genes[g] for g in idx[ptr[i]:ptr[i + 1]].tolist())
                out[frozenset((a, b))] = s
    return out


def run(scn, sb):
    res = {'violations': [], 'probes': {}, 'faults': {}, 'interleavings': [], 'not_judged': {}, 'evaluations': 0}
    viol = res['violations']
    W = world.make_world(scn['wp'])
    tax = W.tax
    cfg = scn['cfg']
    common.begin(sb, scn['kcfg'])
    try:
        stats = W.write_stats_file(sb.p('in', 'stats.h5'))
        scheds = []
        if scn['src'] == 'synthetic':
            refm = write_synthetic_markers(sb.p('in', 'reference_markers.h5'), W, stats, scn['syn'])
        else:
            os.makedirs(sb.p('in', 'refm'))
            o, s = harness.run_call({'policy': 'fifo', 'seed': 0}, drivers.run_reference_markers, [stats],
                                    sb.p('in', 'refm'), sb.p('scratch'), n_processors=2, n_valid=10)
            if o[0] != 'ok':
                res['not_judged']['reference_marker_stage_failed'] = 1
                res['nontrivial'] = False
                return res
            refm = sb.p('in', 'refm', 'reference_markers.h5')
        census = read_census(refm)
        r = np.random.default_rng(cfg['q_seed'])
        q_genes = [g for g in W.genes if r.random() < cfg['query_frac']] + ['query_only_gene']
        if len(q_genes) < 3:
            q_genes = list(W.genes[:2]) + ['query_only_gene']
        r.shuffle(q_genes)
        qset = set(q_genes)
        override = None
        if cfg['override']:
            override = {}
            for parent in tax.all_parents():
                if r.random() < 0.4:
                    override[parent] = int(r.integers(1, 6))
        override_spec = None if override is None else dict(override)
        if override is not None and cfg.get('warmup_other_target'):
            # a caller re-using ONE override table for several selections with different default targets: an earlier
            # call (other target, same dict object, result ignored) must not influence the judged ones
            harness.run_call({'policy': 'fifo', 'seed': 0}, drivers.run_marker_lookup, [refm], list(q_genes),
                             sb.p('scratch'), n_per_utility=1 if cfg['n_per_utility'] > 1 else cfg['n_per_utility'] + 2,
                             n_per_utility_override=override, n_processors=2, genes_at_a_time=1)
            res['probes']['override_table_reused_across_calls'] = 1
        lookups = []
        for ei, ex in enumerate(scn['exec']):
            o, s = harness.run_call(dict(ex['sched']), drivers.run_marker_lookup, [refm], list(q_genes),
                                    sb.p('scratch'), n_per_utility=cfg['n_per_utility'],
                                    n_per_utility_override=override, n_processors=ex['n_processors'],
                                    behemoth_cutoff=ex['behemoth_cutoff'], genes_at_a_time=cfg['genes_at_a_time'])
            scheds.append(s)
            if o[0] != 'ok' and 'No gene overlap between reference and query set' in o[1]:
                # the query shares no gene with the marker table: refusing is legitimate
                res['not_judged']['query_shares_no_marker'] = 1
                continue
            if o[0] != 'ok':
                viol.append({'cls': 'selection-raises', 'detail': 'execution %d (%d workers, cutoff %d): %s'
                             % (ei, ex['n_processors'], ex['behemoth_cutoff'], o[1][:300])})
                continue
            lk = {k: v for k, v in o[1].items() if k not in ('log', 'metadata')}
            lookups.append(lk)
        common.sched_stats(res, scheds)
        if len(lookups) == 2:
            a = {k: sorted(v) for k, v in lookups[0].items()}
            b = {k: sorted(v) for k, v in lookups[1].items()}
            if a != b:
                diff = [k for k in set(a) | set(b) if a.get(k) != b.get(k)]
                viol.append({'cls': 'selection-depends-on-workers-or-threshold',
                             'detail': 'executions %r select differently at %r: %r vs %r'
                                       % ([(e['n_processors'], e['behemoth_cutoff']) for e in scn['exec']],
                                          diff[:3], a.get(diff[0]), b.get(diff[0]))})
        short_pairs = 0
        if lookups:
            lk = lookups[0]
            for parent in tax.all_parents():
                key = 'None' if parent is None else '%s/%s' % parent
                ch = tax.children(None, None) if parent is None else tax.children(parent[0], parent[1])
                child_level = tax.child_level(None if parent is None else parent[0])
                groups = [tax.leaves_under(child_level, c) for c in ch]
                pairs = []
                for g1, g2 in itertools.combinations(groups, 2):
                    for x in g1:
                        for y in g2:
                            pairs.append(frozenset((x, y)))
                sel = lk.get(key)
                if sel is None:
                    viol.append({'cls': 'parent-missing', 'detail': 'no entry for parent %r' % key})
                    continue
                if len(set(sel)) != len(sel):
                    viol.append({'cls': 'duplicate-genes', 'detail': 'parent %r lists %r' % (key, sel)})
                if not pairs:
                    if sel:
                        viol.append({'cls': 'markers-for-nothing',
                                     'detail': 'parent %r has nothing to discriminate but got %r' % (key, sel)})
                    continue
                useful = set()
                for pr in pairs:
                    useful |= census[pr]['up'] | census[pr]['down']
                for g in sel:
                    if g not in qset:
                        viol.append({'cls': 'gene-not-in-query', 'detail': 'parent %r selects %r' % (key, g)})
                        break
                    if g not in useful:
                        viol.append({'cls': 'useless-gene', 'detail': 'parent %r selects %r, which is not a reference '
                                     'marker of any pair the parent must discriminate' % (key, g)})
                        break
                target = cfg['n_per_utility']
                if override_spec and parent in override_spec:
                    target = override_spec[parent]
                ss_ = set(sel)
                for pr in pairs:
                    res['evaluations'] += 1
                    avail = (census[pr]['up'] | census[pr]['down']) & qset
                    need = min(2 * target, len(avail))
                    if len(avail) < 2 * target:
                        short_pairs += 1
                    have = len(ss_ & avail)
                    if have < need:
                        viol.append({'cls': 'pair-under-covered',
                                     'detail': 'parent %r pair %r: %d selected markers of the pair, %d available in the '
                                               'query, per-direction target %d (need %d)'
                                               % (key, sorted(pr), have, len(avail), target, need)})
                        break
        res['probes']['pairs_with_fewer_markers_than_twice_target'] = short_pairs
        if any(e['behemoth_cutoff'] < 5000000 for e in scn['exec']):
            res['probes']['large_parent_path'] = 1
        res['nontrivial'] = bool(lookups) and (short_pairs > 0 or any(s.max_inflight >= 2 for s in scheds))
        res['key'] = model.canonical_json({k: v for k, v in scn.items() if k != 'kcfg'})
        res['sample'] = {'source': scn['src'], 'hierarchy': tax.hierarchy, 'leaves': len(tax.leaves),
                         'genes': len(W.genes), 'query_genes': len(q_genes), 'target': cfg['n_per_utility'],
                         'override': {str(k): v for k, v in (override_spec or {}).items()},
                         'selected': {k: len(v) for k, v in (lookups[0] if lookups else {}).items()}}
        res['ticks'] = KERNEL.n_ticks
        return res
    finally:
        sb.end()


def shrink(scn, violation=None):
    for wp in common.shrink_numbers(scn['wp'], ['n_leaves', 'depth', 'n_genes']):
        c = dict(scn)
        c['wp'] = wp
        yield c
    for i, e in enumerate(scn['exec']):
        if e['sched'].get('policy') != 'fifo':
            c = dict(scn)
            c['exec'] = [dict(x) for x in scn['exec']]
            c['exec'][i]['sched'] = {'policy': 'fifo', 'seed': 0}
            yield c
