"""
C07 -- mapping is invariant to count scale, declared normalisation, gene order.

Pairs of simulated mapping runs (independent schedule / transport / encoding per side; same chunks
where the relation is bitwise at bootstrap factors < 1, because the per-chunk generators are
seeded in dispatch order).  Weak fit: the relations would hold or fail identically under the OS
scheduler; the simulator contributes the diversity of the two executions.
"""
import numpy as np

from sim import model, world
from sim.kernel import KERNEL
from . import common, mapfam

ID = 'C07'
LEVEL = 'exploration'
QUOTA = {'quick': 1200, 'thorough': 8000}
BUDGET = {'quick': 100, 'thorough': 900}
RELATIONS = ['normalised', 'scale_pow2', 'scale_any', 'gene_perm', 'extra_genes', 'negative']
RULE = ('scenario = pair of mapping runs over one world related by one of: raw vs declared log2(CPM+1); per-cell '
        'positive scale (powers of two: bitwise, arbitrary: factor 1 + tolerance); gene-column permutation with names '
        '(bitwise, any factor); adding/removing non-marker or non-reference genes for normalised input (bitwise, any '
        'factor); a negative raw value (run must raise and write no results); an evaluation is one cell compared; '
        'non-trivial = at least one unambiguous cell compared (or the negative-input run judged); distinct by hash of '
        '(world parameters, relation, configurations)')
ASSUMPTIONS = ['weak fit (see DESIGN section 2)', 'bitwise claims only where the arithmetic is order independent: '
               'integer raw counts or declared-normalised input for column permutation, exact powers of two for scale',
               'ambiguous cells (margin < 1e-9) are excluded and counted for the tolerance relations']


def gen(rng, tier, idx):
    rel = RELATIONS[idx % len(RELATIONS)]
    wp = world.draw_world_params(rng)
    wp['n_query'] = rng.choice([1, 2, 3, 5, 8, 12])
    W = world.make_world(wp)
    bitwise = rel in ('scale_pow2', 'gene_perm', 'extra_genes')
    a = common.draw_mapping_cfg(rng, W)
    a['min_markers'] = max(1, a['min_markers'])
    if not bitwise:
        a['bootstrap_factor'] = 1.0
        a['factor_lookup'] = None
    b = mapfam.draw_side_cfg(rng, a, wp['n_query'], same_chunks=bitwise)
    if not bitwise:
        b['rng_seed'] = rng.randrange(2 ** 31)
    int_dtype = rng.choice([None, None, 'uint8', 'uint16'])
    return {'wp': wp, 'rel': rel, 'tier': tier, 'a': a, 'b': b, 'int_dtype': int_dtype, 'vseed': rng.randrange(2 ** 31),
            'sched_a': common.draw_sched(rng), 'sched_b': common.draw_sched(rng),
            'kcfg': common.draw_kernel_cfg(rng)}


def run(scn, sb):
    res = {'violations': [], 'probes': {}, 'faults': {}, 'interleavings': [], 'not_judged': {}, 'evaluations': 0}
    W = world.make_world(scn['wp'])
    rel = scn['rel']
    r = np.random.default_rng(scn['vseed'])
    a, b = dict(scn['a']), dict(scn['b'])
    Xa, ga = W.q_X, list(W.q_genes)
    Xb, gb = W.q_X, list(W.q_genes)
    exact = False
    marker_genes = set(g for v in W.markers.values() for g in v)
    if rel == 'normalised':
        if scn.get('int_dtype') and float(np.abs(W.q_X - np.rint(W.q_X)).max()) == 0.0 and W.q_X.size:
            # the raw side stored in a NARROW integer type (what validation writes): every entry fits, the per-cell
            # totals do not (uint8: totals > 255; uint16: entries scaled up to ~60000, totals > 65535)
            if scn['int_dtype'] == 'uint8' and W.q_X.max() <= 255:
                a['dtype'] = 'uint8'
                res['probes']['raw_query_in_uint8'] = 1
            elif scn['int_dtype'] == 'uint16' and W.q_X.max() >= 1:
                Xa = W.q_X * float(int(60000 // W.q_X.max()))
                a['dtype'] = 'uint16'
                res['probes']['raw_query_in_uint16'] = 1
        Xb = model.log2cpm(Xa)
        b['normalization'] = 'log2CPM'
    elif rel == 'scale_pow2':
        # any positive constant: from totals far below one count to very large ones
        lo, hi = (-3, 6) if r.random() < 0.4 else (-40, 40)
        Xb = W.q_X * (2.0 ** r.integers(lo, hi, size=(W.q_X.shape[0], 1)))
        exact = True
    elif rel == 'scale_any':
        if r.random() < 0.4:
            Xb = W.q_X * r.uniform(0.3, 17.0, size=(W.q_X.shape[0], 1))
        else:
            Xb = W.q_X * (10.0 ** r.uniform(-9.0, 9.0, size=(W.q_X.shape[0], 1)))
    elif rel == 'gene_perm':
        p = r.permutation(len(ga))
        if r.random() < 0.5:
            Xa = model.log2cpm(W.q_X)
            a['normalization'] = b['normalization'] = 'log2CPM'
        Xb, gb = Xa[:, p], [ga[i] for i in p]
        exact = True
    elif rel == 'extra_genes':
        Xa = model.log2cpm(W.q_X)
        a['normalization'] = b['normalization'] = 'log2CPM'
        keep = [i for i, g in enumerate(ga) if g in marker_genes or r.random() < 0.5]
        # a handful of extra genes, or enough of them to push the markers past column 2**8 (2**16 in the thorough
        # tier); appended, prepended or interleaved with the kept columns
        u = r.random()
        n_extra = 3 if u < 0.55 else (int(r.integers(20, 60)) if u < 0.7 else int(r.integers(257, 400)))
        if scn.get('tier') == 'thorough' and u > 0.985:
            n_extra = 65536 + int(r.integers(1, 50))
        n_extra = int(scn.get('force_n_extra', n_extra))
        extra = r.uniform(0, 9, size=(Xa.shape[0], n_extra))
        Xb = np.hstack([Xa[:, keep], extra])
        gb = [ga[i] for i in keep] + ['newgene_%d' % i for i in range(n_extra)]
        place = r.random()
        if place < 0.35:      # extras first
            order = list(range(len(keep), len(gb))) + list(range(len(keep)))
        elif place < 0.7:     # interleaved
            order = [int(x) for x in r.permutation(len(gb))]
        else:
            order = list(range(len(gb)))
        Xb, gb = Xb[:, order], [gb[i] for i in order]
        exact = True
    elif rel == 'negative':
        Xb = W.q_X.copy()
        i, j = int(r.integers(0, Xb.shape[0])), int(r.integers(0, Xb.shape[1]))
        Xb[i, j] = -float(r.integers(1, 5))
        b['encoding'] = r.choice(['dense', 'csr', 'csc'])
    common.begin(sb, scn['kcfg'])
    try:
        exp = mapfam.expectations(W, a)
        exp_b = mapfam.expectations(W, b, q_genes=gb)
        if exp['errors'] or exp['unknown_to_reference'] or exp_b['errors']:
            res['not_judged']['precondition_not_met'] = 1
            res['nontrivial'] = False
            return res
        if rel == 'negative':
            rb = mapfam.run_map(sb, W, b, dict(scn['sched_b']), tag='B', query=Xb, q_genes=gb)
            common.sched_stats(res, [rb['sched']])
            res['evaluations'] = 1
            if rb['outcome'][0] != 'raised':
                res['violations'].append({'cls': 'negative-raw-input-mapped',
                                          'detail': 'raw input with a negative value (encoding %s) was mapped'
                                                    % b['encoding']})
            elif rb['blob'] is not None and 'results' in rb['blob']:
                res['violations'].append({'cls': 'negative-raw-input-mapped', 'detail': 'raised but wrote results'})
            res['nontrivial'] = True
            res['key'] = model.canonical_json([scn['wp'], rel, b])
            res['sample'] = {'relation': rel, 'outcome': rb['outcome'][1][:150] if rb['outcome'][0] == 'raised' else 'ok'}
            return res
        ra = mapfam.run_map(sb, W, a, dict(scn['sched_a']), tag='A', query=Xa, q_genes=ga)
        rb = mapfam.run_map(sb, W, b, dict(scn['sched_b']), tag='B', query=Xb, q_genes=gb)
        common.sched_stats(res, [ra['sched'], rb['sched']])
        if ra['outcome'][0] != 'ok' or rb['outcome'][0] != 'ok':
            if ra['outcome'][0] != rb['outcome'][0]:
                res['violations'].append({'cls': 'one-side-fails-%s' % rel,
                                          'detail': 'A: %r  B: %r' % (ra['outcome'], rb['outcome'])})
            else:
                res['not_judged']['both_raised'] = 1
            res['nontrivial'] = False
            return res
        A = ra['blob']['results']
        B = rb['blob']['results']
        l2 = W.query_log2cpm()
        judged = 0
        for i, (x, y) in enumerate(zip(A, B)):
            res['evaluations'] += 1
            if not exact and mapfam.cell_margin(W, exp, l2[i], W.q_genes, x) < 1e-9:
                res['not_judged']['ambiguous_cell'] = res['not_judged'].get('ambiguous_cell', 0) + 1
                continue
            judged += 1
            diff = 'cell ids differ' if x['cell_id'] != y['cell_id'] else \
                mapfam.compare_records(x, y, W.tax.hierarchy, exact=exact)
            if diff:
                res['violations'].append({'cls': 'not-invariant-%s' % rel,
                                          'detail': 'cell %r: %s (factor %r)' % (x['cell_id'], diff,
                                                                                 a['bootstrap_factor'])})
                break
        res['probes']['cells_compared'] = judged
        res['probes']['relation_' + rel] = 1
        res['nontrivial'] = judged > 0
        res['key'] = model.canonical_json([scn['wp'], rel, a, b])
        res['sample'] = {'relation': rel, 'cells_compared': judged, 'bitwise': exact,
                         'factor': a['bootstrap_factor']}
        res['ticks'] = KERNEL.n_ticks
        return res
    finally:
        sb.end()


def shrink(scn, violation=None):
    for k in ('sched_a', 'sched_b'):
        if scn[k].get('policy') != 'fifo':
            c = dict(scn)
            c[k] = {'policy': 'fifo', 'seed': 0}
            yield c
    for wp in common.shrink_numbers(scn['wp'], ['n_query', 'n_leaves', 'depth', 'n_genes']):
        c = dict(scn)
        c['wp'] = wp
        yield c
