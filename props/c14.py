"""
C14 -- a failed worker fails the run; no partial result passes as success.

Decided by fault enumeration: for each (world, stage) the grid
    worker index (every worker the stage starts) x failure mode {SIGKILL, exit non-zero, raise}
    x crash point {before work, mid-way at the k-th I/O seam event, after work}
is enumerated completely, each cell under a freshly drawn random schedule.  Worlds and
schedules are sampled.
"""
import json
import os
import random
import shutil

import numpy as np

from sim import drivers, harness, kernel, model, world
from sim.kernel import KERNEL
from . import common, stages

ID = 'C14'
LEVEL = 'fault_enumeration'
QUOTA = {'quick': 36, 'thorough': 256}
BUDGET = {'quick': 150, 'thorough': 1500}
RULE = ('scenario = (generated world, pooled stage); inside it the complete grid worker x {kill, exit, raise} x '
        '{before, mid(k), after} is enumerated, each cell executed under its own seeded random schedule; an '
        'evaluation is one grid cell; non-trivial = the injected fault actually fired inside the targeted worker '
        '(child trace / kill record); distinct by (stage, world, worker, mode, point, k)')
ASSUMPTIONS = [
    'the grid is complete per (world, stage); worlds and schedules are sampled',
    'mid-way crash points are the I/O seam events of the worker (HDF5 opens, every dataset creation and write, '
    'open() calls, manager RPCs outside lock-protected sections); crash points inside a single numpy/HDF5 call are '
    'out of reach',
    '"a later stage would accept as complete" is decided by running the real consuming stage on whatever is left',
]
STAGE_CYCLE = ['mapping', 'stats', 'refmarkers', 'pmask', 'pmask_markers', 'qmarkers', 'transpose',
               'mapping_mgr', 'otf']
MODES = ['kill', 'exit', 'raise']
POINTS = ['before', 'mid', 'after']
SUCCESS_MSG = 'RAN SUCCESSFULLY'


def gen(rng, tier, idx):
    stage = STAGE_CYCLE[idx % len(STAGE_CYCLE)]
    scn = stages.gen_stage(rng, stage)
    # keep the grids small: few workers, small worlds
    scn['cfg']['n_processors'] = rng.randint(2, 4)
    if stage in ('mapping', 'mapping_mgr'):
        scn['wp']['n_query'] = rng.choice([4, 6, 9])
        scn['cfg']['chunk_size'] = rng.choice([2, 3])
        scn['cfg']['bootstrap_iteration'] = rng.choice([1, 3])
        scn['wp']['single_top'] = False
    if stage == 'otf':
        scn['wp']['n_query'] = rng.choice([4, 6])
        scn['wp']['n_leaves'] = rng.choice([3, 4, 5])
        scn['cfg']['chunk_size'] = rng.choice([2, 3])
        scn['cfg']['n_processors'] = rng.randint(2, 3)
        scn['cfg']['bootstrap_iteration'] = rng.choice([1, 3])
    if stage == 'qmarkers':
        scn['cfg']['behemoth_cutoff'] = 5000000      # CLI body, writes a file
    scn['kcfg'] = common.draw_kernel_cfg(rng)
    scn['seed'] = rng.randrange(2 ** 31)
    scn['mid_ks'] = 1 if tier == 'quick' else 3
    return scn


def _events_per_worker(sched, trace_dir):
    tr = kernel.read_child_traces(trace_dir, sched.call_id)
    out = {}
    for (c, w), recs in tr.items():
        out[w] = sum(1 for r in recs if r.get('ev') == 'io' and r.get('n') is not None)
    return out


def _fault_fired(sched, trace_dir, w):
    for f in sched.fired:
        if f['worker'] == w:
            return True
    tr = kernel.read_child_traces(trace_dir, sched.call_id)
    return any(r.get('ev') == 'fault' for r in tr.get((sched.call_id, w), []))


def _h5_keys(path):
    import h5py
    try:
        with h5py.File(path, 'r') as f:
            return sorted(f.keys())
    except Exception as e:
        return 'unreadable: %s' % type(e).__name__


def judge(scn, sb, ctx, out, cell):
    """oracle for one grid cell; returns list of (cls, detail)"""
    stage = scn['stage']
    bad = []
    o = ctx.get('outputs', {})
    if out[0] != 'raised':
        bad.append(('no-error-raised', 'the call returned normally'))
    if stage == 'mapping':
        if os.path.exists(o['json']):
            try:
                blob = common.load_json(o['json'])
            except Exception as e:
                blob = None
                bad.append(('json-unreadable', repr(e)[:200]))
            if blob is not None:
                if 'results' in blob:
                    bad.append(('results-written', 'JSON output has %d result records' % len(blob['results'])))
                if any(SUCCESS_MSG in str(l) for l in blob.get('log', [])):
                    bad.append(('success-logged', 'JSON log contains the success message'))
                if 'log' not in blob:
                    bad.append(('log-missing', 'JSON output has no log'))
        else:
            bad.append(('log-missing', 'no JSON output (config/log/metadata) was written'))
        if os.path.exists(o['h5']):
            keys = _h5_keys(o['h5'])
            if keys != ['metadata']:
                bad.append(('results-written', 'HDF5 output has datasets %r' % (keys,)))
            else:
                import h5py
                with h5py.File(o['h5'], 'r') as f:
                    md = json.loads(f['metadata'][()].decode('utf-8'))
                if 'results' in md:
                    bad.append(('results-written', 'HDF5 metadata carries results'))
        if os.path.exists(o['csv']):
            bad.append(('csv-written', 'a CSV file exists at the requested path'))
        if os.path.exists(o['log']):
            with open(o['log']) as f:
                txt = f.read()
            if SUCCESS_MSG in txt:
                bad.append(('success-logged', 'log file contains the success message'))
            if 'ERROR' not in txt and 'error' not in txt and 'Traceback' not in txt:
                bad.append(('log-missing', 'log file does not record the error'))
        else:
            bad.append(('log-missing', 'no log file was written'))
        return bad
    if stage == 'otf':
        # a mapping run made of three pools (reference markers, query markers, mapping).  The JSON output with its
        # log is written by the mapping part only; when the failing worker belongs to an earlier pool the run never
        # gets there, so the log clause is judged only if a JSON output exists.
        if os.path.exists(o['json']):
            try:
                blob = common.load_json(o['json'])
            except Exception as e:
                blob = None
                bad.append(('json-unreadable', repr(e)[:200]))
            if blob is not None:
                if 'results' in blob:
                    bad.append(('results-written', 'JSON output has %d result records' % len(blob['results'])))
                if any(SUCCESS_MSG in str(l) for l in blob.get('log', [])):
                    bad.append(('success-logged', 'JSON log contains the success message'))
                if 'log' not in blob:
                    bad.append(('log-missing', 'JSON output has no log'))
        if os.path.exists(o['csv']):
            bad.append(('csv-written', 'a CSV file exists at the requested path'))
        return bad
    # ---- other stages: nothing acceptable may be left at the output location
    for kind, path in o.items():
        if not os.path.exists(path):
            continue
        sched = {'policy': 'fifo', 'seed': 0}
        cons_out = os.path.join(os.path.dirname(path), 'consumer_out')
        os.makedirs(cons_out, exist_ok=True)
        if kind == 'stats':
            r, _ = harness.run_call(sched, drivers.run_find_markers, path, os.path.join(cons_out, 'rm.h5'),
                                    sb.p('scratch'), n_processors=1)
        elif kind == 'refmarkers':
            r, _ = harness.run_call(sched, drivers.run_marker_lookup, [path], list(ctx['W'].genes),
                                    sb.p('scratch'), n_processors=1, search_for_stats_file=False)
        elif kind == 'pmask':
            r, _ = harness.run_call(sched, drivers.run_markers_from_p_mask, ctx['stats'], path,
                                    os.path.join(cons_out, 'rm.h5'), sb.p('scratch'), n_processors=1,
                                    n_valid=2)
        elif kind == 'qmarkers':
            try:
                d = common.load_json(path)
                r = ('ok', None) if isinstance(d, dict) and 'None' in d else ('raised', 'no root entry')
            except Exception as e:
                r = ('raised', repr(e)[:100])
        elif kind == 'transposed':
            keys = _h5_keys(path)
            r = ('ok', None) if isinstance(keys, list) and 'indptr' in keys and 'indices' in keys \
                else ('raised', 'keys %r' % (keys,))
        else:
            r = ('raised', 'unknown kind')
        if r[0] == 'ok':
            bad.append(('partial-output-accepted',
                        'the file left at the %s output location (datasets %r) is accepted by its consumer'
                        % (kind, _h5_keys(path) if path.endswith('.h5') else 'json')))
    return bad


def run(scn, sb):
    res = {'violations': [], 'probes': {}, 'faults': {}, 'interleavings': [], 'not_judged': {},
           'keys': [], 'evaluations': 0}
    viol = res['violations']
    rng = random.Random(scn['seed'])
    common.begin(sb, scn['kcfg'])
    # fine-grained seam events (every HDF5 dataset creation / write) are crash points too, so a
    # worker can die with its output file half written
    KERNEL.fine_io = True
    try:
        ctx = stages.prepare(scn, sb)
        # ---- fault-free probe run: how many workers, how many seam events each
        out, dig, scheds = stages.execute(scn, sb, ctx, 0, {'sched': {'policy': 'fifo', 'seed': 0}})
        if out[0] != 'ok' or not scheds:
            res['not_judged']['stage_fails_without_fault'] = 1
            res['nontrivial'] = False
            res['sample'] = {'stage': scn['stage'], 'fault_free_run': out[1] if out[0] != 'ok' else 'no pool'}
            return res
        main = [s for s in scheds if s.procs]
        if not main:
            # every stage of the cycle starts worker processes on the unchanged tree.  If none was started through
            # multiprocessing.Process, the stage's worker management has left the simulator (a Pool, an executor,
            # threads: DESIGN section 10) and this check CANNOT decide the property for it -- which must not look
            # like a pass
            raise RuntimeError('stage %s (n_processors=%r) started no simulated worker process: its worker '
                               'management escaped the simulator, C14 cannot decide this stage'
                               % (scn['stage'], scn['cfg'].get('n_processors')))
        # (call ordinal within the stage execution, worker id) for every worker of every pool of the stage
        workers = []
        for ci, s in enumerate(scheds):
            ev = _events_per_worker(s, sb.trace)
            for p in s.procs:
                workers.append((ci, p._sim_id, ev.get(p._sim_id, 0)))
        only = scn.get('only')
        cells = []
        for (ci, w, n_ev) in workers:
            for mode in MODES:
                for point in POINTS:
                    if point == 'mid':
                        if n_ev == 0:
                            res['not_judged']['worker_without_seam_event'] = \
                                res['not_judged'].get('worker_without_seam_event', 0) + 1
                            continue
                        ks = sorted(set(rng.randint(1, n_ev) for _ in range(scn.get('mid_ks', 1))))
                    else:
                        ks = [None]
                    for k in ks:
                        cells.append((ci, w, mode, point, k))
        if only:
            cells = [c for c in cells if list(c[:4]) == list(only[:4])]
            if cells and only[3] == 'mid':
                cells = [tuple(only)]
            cells = cells[:1]
        sample_cells = []
        for i, (ci, w, mode, point, k) in enumerate(cells):
            fault = {'point': point, 'mode': mode}
            if k is not None:
                fault['k'] = k
            if mode == 'exit':
                fault['code'] = rng.choice([1, 2, 3, 255])
                if rng.random() < 0.3:
                    fault['mode'] = 'sysexit'
            sched = common.draw_sched(rng)
            sched['cleanup_yields'] = rng.choice([0, 0, 0.5, 1.0])
            # the fault targets worker w of the ci-th pool of the stage; pools are separate calls
            sched['faults_by_call'] = {str(ci): {str(w): fault}}
            n0 = len(KERNEL.calls)
            out, dig, scheds = _execute_with_call_faults(scn, sb, ctx, i + 1, sched)
            res['evaluations'] += 1
            common.sched_stats(res, scheds)
            fired = len(scheds) > ci and _fault_fired(scheds[ci], sb.trace, w)
            cell = {'stage': scn['stage'], 'pool': ci, 'worker': w, 'mode': fault['mode'], 'point': point,
                    'k': k, 'policy': sched['policy']}
            if not fired:
                res['not_judged']['fault_did_not_fire'] = res['not_judged'].get('fault_did_not_fire', 0) + 1
            else:
                fk = '%s/%s' % (fault['mode'] if fault['mode'] != 'sysexit' else 'exit', point)
                res['faults'][fk] = res['faults'].get(fk, 0) + 1
                res['keys'].append(model.canonical_json([scn['stage'], scn.get('wp') or scn.get('mat'), ci, w,
                                                         mode, point, k]))
                for cls, detail in judge(scn, sb, ctx, out, cell):
                    viol.append({'cls': cls, 'detail': '%s; cell %s' % (detail, json.dumps(cell)),
                                 'cell': [ci, w, mode, point, k]})
                # where was the failing exit observed?
                s = scheds[ci]
                for e in s.log:
                    if e[0] == 'visible' and e[1] == w:
                        pr = res['probes']
                        key = 'failed_exit_seen_with_%s' % ('siblings_still_running' if e[2] > 0
                                                            else 'all_workers_done')
                        pr[key] = pr.get(key, 0) + 1
                n_orph = sum(getattr(s2, 'n_orphans', 0) for s2 in scheds)
                if n_orph:
                    res['probes']['orphaned_siblings'] = res['probes'].get('orphaned_siblings', 0) + n_orph
            if len(sample_cells) < 3:
                sample_cells.append(dict(cell, outcome=out[0], msg=(out[1] or '')[:120] if out[0] == 'raised' else None,
                                         fired=fired))
            shutil.rmtree(sb.p('out', 'r%d' % (i + 1)), ignore_errors=True)
        res['nontrivial'] = len(res['keys']) > 0
        res['grid'] = {'workers': len(workers), 'cells': len(cells)}
        res['sample'] = {'stage': scn['stage'], 'workers': [(ci, w, n) for ci, w, n in workers],
                         'grid_cells': len(cells), 'cells': sample_cells}
        res['ticks'] = KERNEL.n_ticks
        return res
    finally:
        KERNEL.fine_io = False
        sb.end()


def _execute_with_call_faults(scn, sb, ctx, k_i, sched):
    """
    A stage may run several pools (separate simulated calls are not used: all pools of one stage
    execution live in ONE scheduler call, with worker ids running on).  The fault therefore
    addresses the worker by its id within the call.
    """
    fb = sched.pop('faults_by_call')
    faults = {}
    for ci, d in fb.items():
        faults.update(d)
    sched['faults'] = faults
    return stages.execute(scn, sb, ctx, k_i, {'sched': sched})


def extra_evidence(records):
    grids = 0
    cells = 0
    stages_seen = {}
    for r in records:
        g = (r.get('res') or {}).get('grid')
        if g:
            grids += 1
            cells += g['cells']
            st = r['scn']['stage']
            stages_seen[st] = stages_seen.get(st, 0) + g['cells']
    return {'complete_grids': grids, 'grid_cells': cells, 'grid_cells_by_stage': stages_seen,
            'exhaustive': False,
            'exhaustive_note': 'each (world, stage) grid is enumerated completely; worlds and schedules are sampled'}


def shrink(scn, violation=None):
    if violation and violation.get('cell') and not scn.get('only'):
        c = dict(scn)
        c['only'] = violation['cell']
        yield c
    if 'wp' in scn:
        for wp in common.shrink_numbers(scn['wp'], ['n_query', 'n_leaves', 'depth', 'n_genes']):
            c = dict(scn)
            c['wp'] = wp
            yield c
