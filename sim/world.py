"""
World generator: a pure function of a JSON parameter dict.

A world = taxonomy + gene list + reference cells (raw counts, leaf labels) +
marker table + query cells.  Files are written from the in-memory model, either
as inputs for the real stages (h5ad) or directly (precomputed statistics file).
"""
import json
import os
import random

import numpy as np

from . import model

ODD_NAMES = ['a,b', 'x "q"', "it's", 'sp ace', 'ünï', 'semi;colon', 'tab\tname', '#hash', 'new[1]',
             'eq=val', 'pct%', 'back\\slash', '  lead', 'CamelCase', '0', '-1', 'None', 'nan', 'null']


def _names(rng, n, prefix, odd, taken=None):
    out = []
    taken = set(taken or [])
    pool = list(ODD_NAMES)
    rng.shuffle(pool)
    for i in range(n):
        if odd and pool and rng.random() < 0.5:
            nm = pool.pop() + '_%s%d' % (prefix, i) if rng.random() < 0.5 else pool.pop()
        else:
            nm = '%s%d' % (prefix, i)
        while nm in taken:
            nm = nm + '_'
        taken.add(nm)
        out.append(nm)
    return out


def gen_taxonomy(rng, wp):
    """
    wp keys used: depth (1..4), n_leaves (1..10), odd_names, single_top, chain, shared_names,
    name_mapper
    """
    depth = wp.get('depth', 2)
    n_leaves = wp.get('n_leaves', 4)
    odd = wp.get('odd_names', False)
    level_names = ['division', 'neighborhood', 'class', 'subclass', 'supertype', 'cluster']
    if odd:
        level_names = ['di vision', "neigh'bor", 'lvl A', 'sub,level', 'super"type', 'clu_ster']
    hierarchy = level_names[len(level_names) - depth:] if not wp.get('top_levels') else level_names[2:2 + depth]
    hierarchy = list(hierarchy)
    # sizes per level: non-decreasing, last = n_leaves
    sizes = [n_leaves]
    for _ in range(depth - 1):
        prev = sizes[0]
        if wp.get('chain') and rng.random() < 0.5:
            sizes.insert(0, prev)          # single-child chain level
        else:
            sizes.insert(0, rng.randint(1, prev))
    if wp.get('single_top') and depth > 1:
        sizes[0] = 1
    nodes = {}
    parent = {}
    taken = set()
    for li, lv in enumerate(hierarchy):
        share = wp.get('shared_names', False)
        nodes[lv] = _names(rng, sizes[li], 'n%d_' % li if not share else 'n', odd,
                           taken=None if share else taken)
        if not share:
            taken.update(nodes[lv])
    for li in range(1, depth):
        pl, cl = hierarchy[li - 1], hierarchy[li]
        np_, nc = len(nodes[pl]), len(nodes[cl])
        # every parent gets at least one child; remaining children spread at random
        assign = list(range(np_)) + [rng.randrange(np_) for _ in range(nc - np_)]
        rng.shuffle(assign)
        for c, pi in zip(nodes[cl], assign):
            parent[(cl, c)] = nodes[pl][pi]
    name_mapper = None
    hierarchy_mapper = None
    if wp.get('name_mapper'):
        name_mapper = {}
        for lv in hierarchy:
            name_mapper[lv] = {}
            for n in nodes[lv]:
                if rng.random() < 0.8:
                    # names differ between levels even when two levels re-use a label
                    ent = {'name': 'Name of %s (%s)' % (n, lv) if rng.random() < 0.7 else 'nm, "%s" @%s' % (n, lv)}
                    if lv == hierarchy[-1] and rng.random() < 0.8:
                        ent['alias'] = str(rng.randint(1, 9999))
                    name_mapper[lv][n] = ent
        hierarchy_mapper = {lv: 'readable_%s' % lv for lv in hierarchy if rng.random() < 0.8}
    return model.Tax(hierarchy, nodes, parent, name_mapper, hierarchy_mapper)


class World(object):
    """see module docstring; built by make_world(wp)"""

    def __init__(self, wp):
        self.wp = dict(wp)
        rng = random.Random(json.dumps(wp, sort_keys=True))
        nrng = np.random.default_rng(rng.randrange(2 ** 32))
        self.rng = rng
        self.nrng = nrng
        self.tax = gen_taxonomy(rng, wp)
        tax = self.tax
        n_genes = wp.get('n_genes', 12)
        gene_style = wp.get('gene_style', 'plain')
        self.q_genes_file = None
        pool = None
        if gene_style == 'ensembl':
            # real mouse Ensembl ids: the reference and the marker table use the bare id, the query file may carry
            # version suffixes (mapping with map_to_ensembl=True strips them)
            pool = _ensembl_pool()
            start = rng.randrange(0, max(1, len(pool) - n_genes - 8))
            self.genes = list(pool[start:start + n_genes])
        elif gene_style == 'plain':
            self.genes = ['gene_%d' % i for i in range(n_genes)]
        else:
            self.genes = ['g %d,"%s"' % (i, 'x' * (i % 3)) for i in range(n_genes)]
        rng.shuffle(self.genes)
        leaves = tax.leaves
        # ---- reference profiles and cells
        degenerate = wp.get('degenerate', 0.0)
        self.profile = {}
        base = nrng.integers(0, 40, size=n_genes).astype(float)
        for lf in leaves:
            if degenerate and rng.random() < degenerate and self.profile:
                mu = np.array(self.profile[rng.choice(list(self.profile))])
            else:
                mu = nrng.integers(0, 60, size=n_genes).astype(float)
                mu[nrng.random(n_genes) < 0.35] = 0.0
                if wp.get('blocky'):
                    # children of the same parent share most of the profile
                    mu = 0.5 * mu + 0.5 * base
            self.profile[lf] = mu
        cmin, cmax = wp.get('cells_per_leaf', (2, 5))
        ref_rows, ref_labels = [], []
        for lf in leaves:
            for _ in range(rng.randint(cmin, cmax)):
                ref_rows.append(nrng.poisson(self.profile[lf] + 0.05))
                ref_labels.append(lf)
        for _ in range(wp.get('n_unlabelled', 0)):
            ref_rows.append(nrng.poisson(base + 0.5))
            ref_labels.append(None)
        order = list(range(len(ref_rows)))
        rng.shuffle(order)
        self.ref_X = np.array([ref_rows[i] for i in order], dtype=float).reshape(len(order), n_genes)
        self.ref_labels = [ref_labels[i] for i in order]
        self.ref_ids = ['ref_%d' % i for i in range(len(order))]
        if wp.get('dup_genes') and n_genes >= 3:
            # several genes with IDENTICAL counts in every reference cell (hence identical statistics and exactly tied
            # p-values for every cluster pair)
            drng = random.Random(wp['seed'] * 7 + 13)
            src = drng.randrange(n_genes)
            for j in drng.sample([g for g in range(n_genes) if g != src], min(n_genes - 1, int(wp['dup_genes']))):
                self.ref_X[:, j] = self.ref_X[:, src]
        # ---- query genes: permutation of a subset of reference genes plus extras
        keep = [g for g in self.genes if rng.random() >= wp.get('q_drop', 0.15)]
        if not keep:
            keep = [self.genes[0]]
        extra = ['extra_%d' % i for i in range(wp.get('q_extra', 2))]
        if pool is not None:
            extra = [g for g in pool[start + n_genes:start + n_genes + 8] if g not in self.genes][:wp.get('q_extra', 2)]
        self.q_genes = keep + extra
        rng.shuffle(self.q_genes)
        if pool is not None:
            style = rng.choice(['all_versioned', 'all_versioned', 'some_versioned', 'bare'])
            self.q_genes_file = [g + '.%d' % rng.randint(1, 12)
                                 if style == 'all_versioned' or (style == 'some_versioned' and rng.random() < 0.5)
                                 else g for g in self.q_genes]
        # ---- marker table
        self.markers = self._gen_markers(rng, wp)
        # ---- query cells
        n_q = wp.get('n_query', 8)
        gidx = {g: i for i, g in enumerate(self.genes)}
        rows = []
        for i in range(n_q):
            kind = rng.random()
            lf = rng.choice(leaves)
            mu = self.profile[lf] * rng.choice([0.3, 1.0, 2.5]) + 0.2
            full = nrng.poisson(mu).astype(float)
            row = np.array([full[gidx[g]] if g in gidx else float(nrng.poisson(3.0))
                            for g in self.q_genes])
            if kind < wp.get('q_zero_rows', 0.08):
                row[:] = 0.0
            elif kind < wp.get('q_zero_rows', 0.08) + wp.get('q_dup_rows', 0.1) and rows:
                row = rows[rng.randrange(len(rows))].copy()
            rows.append(row)
        self.q_X = np.array(rows, dtype=float).reshape(n_q, len(self.q_genes))
        if wp.get('q_all_zero'):
            self.q_X[:] = 0.0
        self.q_ids = _names(rng, n_q, 'cell_', wp.get('odd_cell_ids', False))
        if wp.get('long_late_id') and n_q >= 2:
            # an identifier near the end of the file that is longer than every earlier one
            self.q_ids[-1] = self.q_ids[-1] + '_with_a_much_longer_identifier_than_any_before'

    # -- marker table --------------------------------------------------------------------------
    def _gen_markers(self, rng, wp):
        tax = self.tax
        style = wp.get('marker_style', 'random')
        usable = [g for g in self.genes if g in set(self.q_genes)]
        lookup = {}
        for parent in tax.all_parents():
            if parent is None:
                key, ch = 'None', tax.children(None, None)
            else:
                key, ch = '%s/%s' % parent, tax.children(parent[0], parent[1])
            if style == 'full':
                lookup[key] = list(self.genes)
                continue
            if len(ch) < 2 and rng.random() < 0.6 and key != 'None':
                continue                      # single-child parents often absent
            r = rng.random()
            if key != 'None' and r < wp.get('m_missing', 0.1):
                continue                      # parent missing from the table
            if key != 'None' and r < wp.get('m_missing', 0.1) + wp.get('m_empty', 0.1):
                lookup[key] = []
                continue
            k = rng.randint(1, max(1, len(self.genes)))
            if rng.random() < wp.get('m_small', 0.3):
                k = rng.randint(1, min(3, len(self.genes)))
            genes = rng.sample(self.genes, k)
            if rng.random() < wp.get('m_dups', 0.15) and genes:
                genes = genes + [rng.choice(genes)]
            lookup[key] = genes
        # the root must have at least one usable gene (C01 precondition)
        if not (set(lookup.get('None', [])) & set(usable)):
            lookup['None'] = list(lookup.get('None', [])) + [rng.choice(usable)] if usable else \
                list(lookup.get('None', []))
        return lookup

    # -- model side ---------------------------------------------------------------------------------
    def ref_log2cpm(self):
        return model.log2cpm(self.ref_X)

    def model_stats(self):
        leaves = sorted(self.tax.leaves)
        return leaves, model.cluster_stats(self.ref_log2cpm(), self.ref_labels, leaves)

    def leaf_cells(self):
        out = {lf: [] for lf in self.tax.leaves}
        for cid, lab in zip(self.ref_ids, self.ref_labels):
            if lab is not None:
                out[lab].append(cid)
        return out

    def query_log2cpm(self):
        return model.log2cpm(self.q_X)

    # -- files --------------------------------------------------------------------------------------
    def write_stats_file(self, path, tax=None, row_order=None, with_cells=True, metadata=True,
                         leave_out=()):
        """write a precomputed-statistics file directly from the model"""
        import h5py
        tax = tax or self.tax
        leaves, st = self.model_stats()
        if row_order is None:
            # cluster_to_row is deliberately not in sorted-name order
            row_order = list(range(len(leaves)))
            random.Random(len(leaves) * 1009 + len(self.genes)).shuffle(row_order)
        # cluster_to_row deliberately not in sorted order
        cluster_to_row = {leaves[i]: r for r, i in enumerate(row_order)}
        inv = [None] * len(leaves)
        for lf, r in cluster_to_row.items():
            inv[r] = leaves.index(lf)
        md = None
        if metadata:
            md = {'factory': 'verif', 'timestamp': 'never', 'params': {}}
        tdict = tax.to_dict(self.leaf_cells() if with_cells else None, metadata=md)
        with h5py.File(path, 'w') as f:
            f.create_dataset('taxonomy_tree', data=json.dumps(tdict).encode('utf-8'))
            f.create_dataset('col_names', data=json.dumps(self.genes).encode('utf-8'))
            f.create_dataset('cluster_to_row', data=json.dumps(cluster_to_row).encode('utf-8'))
            for k, v in st.items():
                if k in leave_out:
                    continue
                f.create_dataset(k, data=v[inv])
        return path

    def write_markers(self, path, lookup=None, with_meta=True):
        d = dict(lookup if lookup is not None else self.markers)
        if with_meta:
            d['metadata'] = {'note': 'synthetic'}
            d['log'] = ['synthetic marker table']
        with open(path, 'w') as f:
            json.dump(d, f)
        return path

    def taxonomy_for_h5ad(self):
        """obs columns for the reference file (None labels get NaN-free placeholder rows dropped)"""
        tax = self.tax
        cols = {lv: [] for lv in tax.hierarchy}
        for lab in self.ref_labels:
            lin = tax.lineage(lab) if lab is not None else None
            for lv in tax.hierarchy:
                cols[lv].append(lin[lv] if lin else None)
        return cols


def write_h5ad(path, X, obs_ids, var_ids, encoding='csr', dtype='float64', obs_cols=None,
               layer=None, chunks=None, uns=None):
    """write an h5ad with anndata; encoding in dense|csr|csc"""
    import anndata
    import pandas as pd
    import scipy.sparse as sp
    X = np.asarray(X).astype(dtype)
    if encoding == 'csr':
        M = sp.csr_matrix(X)
    elif encoding == 'csc':
        M = sp.csc_matrix(X)
    else:
        M = X
    obs = pd.DataFrame(obs_cols or {}, index=pd.Index([str(i) for i in obs_ids]))
    var = pd.DataFrame(index=pd.Index([str(i) for i in var_ids]))
    if layer is None:
        a = anndata.AnnData(X=M, obs=obs, var=var, uns=uns or {})
    else:
        junk = np.zeros(X.shape, dtype=dtype)
        a = anndata.AnnData(X=sp.csr_matrix(junk) if encoding != 'dense' else junk,
                            obs=obs, var=var, layers={layer: M}, uns=uns or {})
    import warnings
    with warnings.catch_warnings():
        warnings.simplefilter('ignore')
        a.write_h5ad(path)
    if chunks is not None:
        rechunk_h5ad(path, chunks, layer=layer)
    return path


def rechunk_h5ad(path, chunks, layer=None):
    """rewrite the matrix datasets with a given HDF5 chunk size (1-d chunk for sparse, (r,c) for dense)"""
    import h5py
    key = 'X' if layer is None else 'layers/%s' % layer
    with h5py.File(path, 'a') as f:
        obj = f[key]
        if isinstance(obj, h5py.Dataset):
            data = obj[()]
            attrs = dict(obj.attrs)
            del f[key]
            ch = (max(1, min(chunks[0], data.shape[0])), max(1, min(chunks[1], data.shape[1]))) \
                if data.size else None
            d = f.create_dataset(key, data=data, chunks=ch)
            for k, v in attrs.items():
                d.attrs[k] = v
        else:
            for name in ('data', 'indices', 'indptr'):
                data = obj[name][()]
                del obj[name]
                ch = (max(1, min(chunks[0], data.shape[0])),) if data.shape[0] else None
                obj.create_dataset(name, data=data, chunks=ch)


def make_world(wp):
    return World(wp)


_ENS_POOL = []


def _ensembl_pool():
    if not _ENS_POOL:
        import re
        from cell_type_mapper.data.mouse_gene_id_lookup import mouse_gene_id_lookup
        pat = re.compile(r'ENSMUSG[0-9]+$')
        _ENS_POOL.extend(sorted(set(v for v in mouse_gene_id_lookup.values() if pat.match(v)))[:6000])
    return _ENS_POOL


def draw_world_params(rng, tier='quick', **force):
    """swarm-style parameter draw for a mapping-sized world"""
    wp = {
        'seed': rng.randrange(2 ** 31),
        'depth': rng.choice([1, 2, 2, 3, 3, 4]),
        # mostly small; now and then a wide taxonomy (a parent with dozens of children)
        'n_leaves': rng.choice([1, 2, 3, 4, 5, 6, 8, 10, 2, 4, 36, 48]),
        'n_genes': rng.choice([6, 8, 12, 16, 24, 40]),
        'n_query': rng.choice([1, 2, 3, 5, 8, 12, 20, 30]),
        'odd_names': rng.random() < 0.25,
        'odd_cell_ids': rng.random() < 0.2,
        'single_top': rng.random() < 0.15,
        'chain': rng.random() < 0.25,
        'shared_names': rng.random() < 0.15,
        'name_mapper': rng.random() < 0.4,
        'degenerate': rng.choice([0.0, 0.0, 0.0, 0.3]),
        'blocky': rng.random() < 0.5,
        'q_drop': rng.choice([0.0, 0.15, 0.4]),
        'q_extra': rng.choice([0, 2, 5]),
        'q_zero_rows': rng.choice([0.0, 0.08, 0.3]),
        'q_dup_rows': rng.choice([0.0, 0.1, 0.3]),
        'marker_style': rng.choice(['random', 'random', 'random', 'full']),
        'm_missing': rng.choice([0.0, 0.1, 0.3]),
        'm_empty': rng.choice([0.0, 0.1, 0.3]),
        'm_small': rng.choice([0.0, 0.3, 0.7]),
        'm_dups': rng.choice([0.0, 0.15]),
        'cells_per_leaf': [1, rng.choice([1, 3, 5])],
        'n_unlabelled': rng.choice([0, 0, 2]),
        'gene_style': rng.choice(['plain', 'plain', 'odd']),
    }
    # rare shapes past the 2**8 index-width boundary (genes, leaves): small worlds never cross it, and the code
    # under test picks the narrowest integer type that fits in many places
    u = rng.random()
    if u < 0.03:
        wp['n_genes'] = 300
    elif u < 0.05:
        wp['n_leaves'] = 300
    elif u < 0.055:
        wp['n_genes'], wp['n_leaves'] = 300, 270
    wp.update(force)
    return wp
