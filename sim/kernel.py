"""
Deterministic simulation kernel ("parked fork") for cell_type_mapper.

Everything the OS would decide for the repo's worker pools is decided here by a
seeded scheduler: which worker process runs, when its exit becomes visible to the
parent's busy-wait, where it is pre-empted, where it dies.  Temp names, directory
listing order, the wall clock and the free-space probe go through seams that are
injected from outside the repository by rebinding module globals (no repo hook).

See DESIGN.md section 3.
"""
import builtins
import datetime as _datetime
import errno
import gc
import hashlib
import importlib
import json
import multiprocessing as _mp
import multiprocessing.context
import os
import pathlib
import pkgutil
import random
import select
import shutil as _shutil
import signal
import sys
import tempfile as _tempfile
import time as _time
import types

RealProcess = _mp.context.Process
_real_exitcode = RealProcess.exitcode.fget

POLL_CAP = 20000          # polls per stage call before the run is classified as hung
CHILD_STALL_S = 120.0     # wall seconds a released worker may run before it is classified as stalled


class SimHang(BaseException):
    """The simulated system made no progress within the bound (bounded liveness)."""


class SimFault(RuntimeError):
    """Exception injected into a worker ('raise' failure mode)."""


class HarnessError(Exception):
    """The harness itself is broken (never a property violation)."""


# ---------------------------------------------------------------------------
# scheduler
# ---------------------------------------------------------------------------

POLICY_PRESETS = {
    # p_run: chance to release a runnable child at a yield point (repeated)
    # pick : which runnable child
    # p_vis: chance that a finished child's exit is seen by a poll
    # idle : polls without progress before progress is forced
    'fifo':        dict(p_run=1.0, pick='first', p_vis=1.0, idle=25),
    'lifo':        dict(p_run=0.0, pick='last', p_vis=1.0, idle=3),
    'lazy':        dict(p_run=0.0, pick='random', p_vis=0.0, idle=25),
    'delayed_vis': dict(p_run=0.5, pick='random', p_vis=0.0, idle=25),
    'random':      dict(p_run=0.5, pick='random', p_vis=0.5, idle=25),
    'perm':        dict(p_run=0.0, pick='perm', p_vis=1.0, idle=2),
}


class Scheduler(object):

    def __init__(self, kernel, spec, call_id):
        self.k = kernel
        self.spec = dict(spec or {})
        self.call_id = call_id
        pol = dict(POLICY_PRESETS[self.spec.get('policy', 'random')])
        for key in ('p_run', 'p_vis', 'idle', 'pick'):
            if key in self.spec:
                pol[key] = self.spec[key]
        self.pol = pol
        self.rng = random.Random(self.spec.get('seed', 0))
        self.replay = list(self.spec.get('decisions') or [])
        self.replay_pos = 0
        self.decisions = []
        self.procs = []           # in start order
        self.log = []             # scheduler event log
        self.idle = 0
        self.npolls = 0
        self.nyields = 0
        self.max_inflight = 0
        self.completion = []      # sim ids in order of exit
        self.visible_order = []
        self.fired = []           # faults that actually fired
        self.pause_count = 0
        self.nested_done = False
        self.exit_seen_in_drain = 0
        self.cleanup_yields = 0
        # chance that a join(timeout=...) on a live worker returns because the timeout expired (0 for FIFO)
        self.p_join_timeout = float(self.spec.get('p_join_timeout',
                                                  0.0 if self.spec.get('policy') == 'fifo' else 0.35))
        self.n_join_timeouts = 0

    # -- decisions -----------------------------------------------------------
    def _draw(self, n):
        """one recorded decision in range(n)"""
        if self.replay_pos < len(self.replay):
            v = int(self.replay[self.replay_pos]) % n
            self.replay_pos += 1
        else:
            v = self.rng.randrange(n)
        self.decisions.append(v)
        return v

    def _coin(self, p):
        if p <= 0.0:
            return False
        if p >= 1.0:
            return True
        # recorded as an integer in range(1000) so that replay is exact
        return self._draw(1000) < int(p * 1000)

    # -- bookkeeping -----------------------------------------------------------
    def runnable(self):
        return [p for p in self.procs if p._sim_state in ('parked', 'paused')]

    def inflight(self):
        return [p for p in self.procs if not p._sim_visible]

    def _pick(self, cands):
        how = self.pol['pick']
        if len(cands) == 1:
            return cands[0]
        if how == 'first':
            return cands[0]
        if how == 'last':
            return cands[-1]
        if how == 'perm':
            prio = self.spec.get('perm') or []
            rank = {sid: i for i, sid in enumerate(prio)}
            return min(cands, key=lambda p: (rank.get(p._sim_id, len(prio) + p._sim_id)))
        return cands[self._draw(len(cands))]

    # -- process life cycle ------------------------------------------------------
    def on_start(self, p):
        k = self.k
        p._sim_id = len(self.procs)
        p._sim_sched = self
        p._sim_state = 'parked'
        p._sim_visible = False
        p._sim_code = None
        sid = str(p._sim_id)
        plan = {}
        fl = (self.spec.get('faults') or {}).get(sid)
        if fl:
            plan['fault'] = dict(fl)
        pauses = (self.spec.get('pauses') or {}).get(sid)
        if pauses is None and self.spec.get('pause_p'):
            pauses = []
            if self._coin(self.spec['pause_p']):
                pauses = sorted(set(1 + self._draw(8) for _ in range(1 + self._draw(2))))
        plan['pauses'] = list(pauses or [])
        p._sim_plan = plan
        p._go_r, p._go_w = os.pipe()
        p._st_r, p._st_w = os.pipe()
        p._sim_trace = os.path.join(k.trace_dir, 'w_%d_%d.jsonl' % (self.call_id, p._sim_id))
        RealProcess.start(p)
        os.close(p._go_r)
        os.close(p._st_w)
        p._go_r = p._st_w = None
        # wait until the child has really reached its parking spot: a kill "before work" then
        # always hits the same instant, whatever the OS scheduler does
        if self._wait_status(p) != b'r':
            raise HarnessError('worker did not report ready')
        self.procs.append(p)
        k.all_procs.append(p)
        n_in = len(self.inflight())
        self.max_inflight = max(self.max_inflight, n_in)
        self.log.append(['start', p._sim_id, n_in])
        k.tick()
        self.yield_point('start')

    def release(self, p):
        """let one parked/paused worker run until it pauses or exits"""
        k = self.k
        plan = p._sim_plan
        fault = plan.get('fault')
        self.idle = 0
        self.log.append(['release', p._sim_id])
        if (p._sim_state == 'parked' and fault and fault['point'] == 'before'
                and fault['mode'] == 'kill'):
            os.kill(p.pid, signal.SIGKILL)
            self.fired.append({'worker': p._sim_id, 'point': 'before', 'mode': 'kill'})
        else:
            os.write(p._go_w, b'g')
        while True:
            msg = self._wait_status(p)
            if msg == b'p':
                p._sim_state = 'paused'
                self.pause_count += 1
                self.log.append(['pause', p._sim_id])
                break
            if msg == b'k':
                # the worker reached the point at which it is to be SIGKILLed
                os.kill(p.pid, signal.SIGKILL)
                continue
            if msg == b'':
                RealProcess.join(p)
                p._sim_state = 'exited'
                p._sim_code = _real_exitcode(p)
                os.close(p._go_w)
                os.close(p._st_r)
                p._go_w = p._st_r = None
                self.completion.append(p._sim_id)
                self.log.append(['exit', p._sim_id, p._sim_code])
                break
            raise HarnessError('unexpected status byte %r' % (msg,))
        k.tick()

    def _wait_status(self, p):
        t0 = _time.monotonic()
        while True:
            try:
                r, _, _ = select.select([p._st_r], [], [], 5.0)
            except InterruptedError:
                continue
            if r:
                return os.read(p._st_r, 1)
            if _time.monotonic() - t0 > self.k.child_stall_s:
                try:
                    os.kill(p.pid, signal.SIGKILL)
                except ProcessLookupError:
                    pass
                raise SimHang('worker %d stalled' % p._sim_id)

    # -- yield points of the parent -------------------------------------------------
    def yield_point(self, kind):
        self.nyields += 1
        nest = self.spec.get('nested')
        if nest and not self.nested_done and self.nyields >= nest['at'] and self.k.nested_cb:
            self.nested_done = True
            self.log.append(['nested', self.nyields])
            self.k.nested_cb(nest)
        while True:
            cands = self.runnable()
            if not cands or not self._coin(self.pol['p_run']):
                break
            self.release(self._pick(cands))

    def poll(self, p):
        self.npolls += 1
        if self.npolls > self.k.poll_cap:
            raise SimHang('more than %d polls in one stage call' % self.k.poll_cap)
        self.yield_point('poll')
        if p._sim_state == 'exited':
            if self._coin(self.pol['p_vis']) or self.idle >= self.pol['idle']:
                return self._make_visible(p)
        self.idle += 1
        if self.idle > self.pol['idle']:
            cands = self.runnable()
            if cands:
                self.release(self._pick(cands))
            elif p._sim_state == 'exited':
                return self._make_visible(p)
        return None

    def _make_visible(self, p):
        p._sim_visible = True
        self.idle = 0
        self.visible_order.append(p._sim_id)
        still = [q for q in self.procs if q._sim_state != 'exited']
        self.log.append(['visible', p._sim_id, len(still)])
        self.k.tick()
        return p._sim_code

    def join(self, p):
        while p._sim_state != 'exited':
            self.release(p)
        if not p._sim_visible:
            self._make_visible(p)

    # -- end of call ---------------------------------------------------------------
    def finish(self, orphan_policy='kill'):
        """called when the stage call has returned or raised"""
        left = [p for p in self.procs if p._sim_state != 'exited']
        n_orphans = len(left)
        for p in left:
            if orphan_policy == 'drain':
                while p._sim_state != 'exited':
                    self.release(p)
                self.log.append(['orphan_drained', p._sim_id])
            else:
                self._kill(p)
                self.log.append(['orphan_killed', p._sim_id])
        return n_orphans

    def _kill(self, p):
        if p._sim_state == 'exited':
            return
        try:
            os.kill(p.pid, signal.SIGKILL)
        except ProcessLookupError:
            pass
        try:
            RealProcess.join(p)
        except Exception:
            pass
        p._sim_state = 'exited'
        p._sim_code = _real_exitcode(p)
        for fd in (p._go_w, p._st_r):
            if fd is not None:
                try:
                    os.close(fd)
                except OSError:
                    pass
        p._go_w = p._st_r = None

    def summary(self):
        return {
            'call_id': self.call_id,
            'n_workers': len(self.procs),
            'max_inflight': self.max_inflight,
            'npolls': self.npolls,
            'completion': list(self.completion),
            'visible': list(self.visible_order),
            'pauses': self.pause_count,
            'fired': list(self.fired),
            'log': self.log,
            'decisions': list(self.decisions),
        }


# ---------------------------------------------------------------------------
# the simulated process
# ---------------------------------------------------------------------------

class SimProcess(RealProcess):
    _sim_visible = False
    _sim_state = None
    _sim_sched = None

    def start(self):
        k = KERNEL
        if k.in_child or not k.active:
            return RealProcess.start(self)
        if not k.sched_stack:
            raise HarnessError('Process.start outside of a simulated call')
        k.sched_stack[-1].on_start(self)

    def run(self):
        # only ever executed in the forked child
        if self._sim_sched is None:
            return RealProcess.run(self)
        KERNEL.enter_child(self)
        os.write(self._st_w, b'r')        # tell the scheduler we are parked (makes 'parked' exact)
        os.read(self._go_r, 1)            # parked until the scheduler releases us
        KERNEL.child_point('before')
        RealProcess.run(self)
        KERNEL.child_point('after')

    @property
    def exitcode(self):
        if self._sim_sched is None or KERNEL.in_child:
            return _real_exitcode(self)
        if self._sim_visible:
            # reads of an already observed exit code are counted too: a parent that keeps spinning over
            # finished workers makes no progress (bounded liveness)
            sch = self._sim_sched
            sch.npolls += 1
            if sch.npolls > KERNEL.poll_cap:
                raise SimHang('more than %d exit-code reads in one stage call' % KERNEL.poll_cap)
            return self._sim_code
        return self._sim_sched.poll(self)

    def join(self, timeout=None):
        if self._sim_sched is None or KERNEL.in_child:
            return RealProcess.join(self, timeout)
        sch = self._sim_sched
        if timeout is not None and self._sim_state != 'exited' and sch._coin(sch.p_join_timeout):
            # the timeout expires first (a slow worker, a loaded machine): the simulated clock moves on by the timeout
            # and join() returns with the worker still alive -- a legal outcome of join(timeout)
            KERNEL.clock += float(timeout)
            sch.log.append(['join_timeout', self._sim_id])
            sch.n_join_timeouts = getattr(sch, 'n_join_timeouts', 0) + 1
            return
        sch.join(self)

    def is_alive(self):
        if self._sim_sched is None or KERNEL.in_child:
            return RealProcess.is_alive(self)
        return self.exitcode is None

    def terminate(self):
        if self._sim_sched is None or KERNEL.in_child:
            return RealProcess.terminate(self)
        self._sim_sched._kill(self)

    kill = terminate


# ---------------------------------------------------------------------------
# kernel
# ---------------------------------------------------------------------------

WRITE_KINDS = ('h5open_w', 'open_w', 'copy', 'move', 'h5create', 'h5write', 'mkdtemp', 'mkstemp')


class Kernel(object):

    def __init__(self):
        self.active = False
        self.in_child = False
        self.child = None
        self.root = None
        self.trace_dir = None
        self.systmp = None
        self.sched_stack = []
        self.calls = []
        self.all_procs = []
        self.events = []
        self.nested_cb = None
        self.poll_cap = POLL_CAP
        self.child_stall_s = CHILD_STALL_S
        self.fine_io = False
        self.parent_fault = None
        self.parent_write_events = 0
        self.parent_fault_fired = None
        self.statvfs_full = False
        self.statvfs_calls = 0
        self.clock = 1.7e9
        self.clock_tick = 0.001
        self.name_rng = random.Random(0)
        self.list_rng = random.Random(0)
        self.list_mode = 'perm'
        self.child_events = 0
        self.child_trace_fd = None
        self.hooks_installed = False
        self.replay_decisions = None
        self.child_lock_depth = 0
        self.n_ticks = 0
        self.recording = False

    # -- scenario life cycle --------------------------------------------------------
    def begin_scenario(self, root, trace_dir, systmp, name_seed=0, list_seed=0,
                       clock_start=1.7e9, clock_tick=0.001, list_mode='perm'):
        self.end_scenario()
        self.root = os.path.realpath(str(root)).rstrip(os.sep) + os.sep
        self.trace_dir = str(trace_dir)
        os.makedirs(self.trace_dir, exist_ok=True)
        self.systmp = str(systmp) if systmp else None
        self.sched_stack = []
        self.calls = []
        self.all_procs = []
        self.events = []
        self.nested_cb = None
        self.fine_io = False
        self.parent_fault = None
        self.parent_write_events = 0
        self.parent_fault_fired = None
        self.statvfs_full = False
        self.statvfs_calls = 0
        self.clock = float(clock_start)
        self.clock_tick = float(clock_tick)
        self.n_ticks = 0
        self.name_rng = random.Random(name_seed)
        self.list_rng = random.Random(list_seed)
        self.list_mode = list_mode
        self.active = True
        install_hooks()
        rebind_repo_modules()

    def end_scenario(self):
        for p in self.all_procs:
            if p._sim_state != 'exited' and p._sim_sched is not None:
                p._sim_sched._kill(p)
        self.all_procs = []
        self.sched_stack = []
        self.active = False
        self.nested_cb = None
        self.parent_fault = None

    def call(self, spec):
        return _Call(self, spec)

    # -- clock ------------------------------------------------------------------------
    def tick(self, n=1):
        self.n_ticks += n
        self.clock += n * self.clock_tick

    def sim_time(self):
        self.n_ticks += 1
        self.clock += self.clock_tick
        return self.clock

    def sim_sleep(self, s):
        self.clock += max(0.0, float(s))

    def sim_now(self, tz=None):
        self.clock += self.clock_tick
        return _datetime.datetime.fromtimestamp(self.clock, tz)

    # -- path helpers -------------------------------------------------------------------
    def under_root(self, path):
        if self.root is None or path is None:
            return None
        try:
            s = os.fspath(path)
        except TypeError:
            return None
        if isinstance(s, bytes):
            try:
                s = s.decode()
            except Exception:
                return None
        s = os.path.abspath(s)
        if (s + os.sep).startswith(self.root) or s.startswith(self.root):
            return s[len(self.root):]
        return None

    # -- I/O seam events ------------------------------------------------------------------
    def io_event(self, kind, path, mode=''):
        if not self.active:
            return
        rel = self.under_root(path)
        if rel is None:
            return
        self.n_ticks += 1
        self.clock += self.clock_tick
        if self.in_child:
            self._child_io_event(kind, rel, mode)
            return
        pos = len(self.sched_stack[-1].log) if self.sched_stack else -1
        cid = self.sched_stack[-1].call_id if self.sched_stack else -1
        self.events.append(['P', kind, rel, mode, cid, pos])
        if kind in WRITE_KINDS:
            self.parent_write_events += 1
            pf = self.parent_fault
            if pf is not None and self.parent_fault_fired is None \
                    and self.parent_write_events == pf['at']:
                self.parent_fault_fired = {'at': pf['at'], 'kind': kind, 'path': rel}
                code = pf.get('errno', errno.ENOSPC)
                raise OSError(code, os.strerror(code), os.path.join(self.root, rel))

    def fs_yield(self, kind):
        """yield point of the parent inside clean-up code (only when a pool still has live workers)"""
        if self.in_child or not self.sched_stack:
            return
        s = self.sched_stack[-1]
        p = s.spec.get('cleanup_yields')
        if p and s.runnable():
            s.cleanup_yields += 1
            s.log.append(['cleanup_yield', kind])
            while True:
                cands = s.runnable()
                if not cands or not s._coin(p):
                    break
                s.release(s._pick(cands))

    def rpc_event(self, method):
        """a request to the multiprocessing.Manager server (lists, dicts, locks shared with workers)"""
        if not self.active:
            return
        self.n_ticks += 1
        self.clock += self.clock_tick
        if self.in_child:
            self._child_io_event('rpc', '<manager>', str(method))
        else:
            pos = len(self.sched_stack[-1].log) if self.sched_stack else -1
            cid = self.sched_stack[-1].call_id if self.sched_stack else -1
            self.events.append(['P', 'rpc', '<manager>', str(method), cid, pos])

    def _child_io_event(self, kind, rel, mode):
        c = self.child
        if self.child_lock_depth > 0:
            # inside a manager-lock critical section: a worker parked here would block every
            # sibling the scheduler releases (only one process runs at a time), so these events
            # are recorded but are neither pre-emption nor crash points
            self._child_trace({'ev': 'io', 'n': None, 'kind': kind, 'path': rel, 'mode': mode})
            return
        self.child_events += 1
        n = self.child_events
        self._child_trace({'ev': 'io', 'n': n, 'kind': kind, 'path': rel, 'mode': mode})
        plan = c._sim_plan
        fault = plan.get('fault')
        if fault and fault['point'] == 'mid' and fault.get('k') == n:
            self._child_fault(fault)
        if n in plan.get('pauses', ()):
            os.write(c._st_w, b'p')
            os.read(c._go_r, 1)

    def _child_trace(self, rec):
        if self.child_trace_fd is not None:
            os.write(self.child_trace_fd, (json.dumps(rec) + '\n').encode())

    def enter_child(self, proc):
        self.in_child = True
        self.child = proc
        self.child_events = 0
        self.child_lock_depth = 0
        for fd in (proc._go_w, proc._st_r):
            try:
                os.close(fd)
            except OSError:
                pass
        sid = proc._sim_id
        cid = proc._sim_sched.call_id
        self.name_rng = random.Random('%r/%d/%d' % (self.name_rng.random(), cid, sid))
        self.list_rng = random.Random('%r/%d/%d' % (self.list_rng.random(), cid, sid))
        self.child_trace_fd = os.open(proc._sim_trace, os.O_WRONLY | os.O_CREAT | os.O_APPEND, 0o600)
        self._child_trace({'ev': 'enter', 'call': cid, 'worker': sid})

    def child_point(self, point):
        fault = self.child._sim_plan.get('fault')
        if fault and fault['point'] == point:
            self._child_fault(fault)

    def _child_fault(self, fault):
        c = self.child
        self._child_trace({'ev': 'fault', 'point': fault['point'], 'mode': fault['mode'],
                           'k': fault.get('k')})
        mode = fault['mode']
        if mode == 'kill':
            if fault['point'] == 'before':
                return   # the parent kills while parked; nothing to do here
            os.write(c._st_w, b'k')
            os.read(c._go_r, 1)     # never returns: SIGKILL arrives
            os._exit(99)
        if mode == 'exit':
            try:
                sys.stdout.flush()
                sys.stderr.flush()
            except Exception:
                pass
            os._exit(int(fault.get('code', 3)))
        if mode == 'sysexit':
            raise SystemExit(int(fault.get('code', 2)))
        if mode == 'raise':
            raise SimFault('simulated failure of worker %d at %s' % (c._sim_id, fault['point']))
        raise HarnessError('unknown fault mode %r' % (mode,))

    # -- temp names ---------------------------------------------------------------------------
    _ALPHA = 'abcdefghijklmnopqrstuvwxyz0123456789_'

    def _name(self):
        return ''.join(self.name_rng.choice(self._ALPHA) for _ in range(8))

    def sim_mkdtemp(self, suffix=None, prefix=None, dir=None):
        d = os.fspath(dir) if dir is not None else (self.systmp or _tempfile.gettempdir())
        prefix = 'tmp' if prefix is None else prefix
        suffix = '' if suffix is None else suffix
        # the seam event (and any injected I/O error) comes BEFORE the directory exists:
        # a real mkdtemp that fails leaves nothing behind
        self.io_event('mkdtemp', os.path.join(d, prefix + '*' + suffix), 'w')
        for _ in range(10000):
            p = os.path.join(d, prefix + self._name() + suffix)
            try:
                os.mkdir(p, 0o700)
            except FileExistsError:
                continue
            return os.path.abspath(p)
        raise FileExistsError(errno.EEXIST, 'no usable temporary directory name')

    def sim_mkstemp(self, suffix=None, prefix=None, dir=None, text=False):
        d = os.fspath(dir) if dir is not None else (self.systmp or _tempfile.gettempdir())
        prefix = 'tmp' if prefix is None else prefix
        suffix = '' if suffix is None else suffix
        self.io_event('mkstemp', os.path.join(d, prefix + '*' + suffix), 'w')
        for _ in range(10000):
            p = os.path.join(d, prefix + self._name() + suffix)
            try:
                fd = os.open(p, os.O_RDWR | os.O_CREAT | os.O_EXCL, 0o600)
            except FileExistsError:
                continue
            return fd, os.path.abspath(p)
        raise FileExistsError(errno.EEXIST, 'no usable temporary file name')

    def sim_gettempdir(self):
        return self.systmp or _tempfile.gettempdir()

    # -- listing order ---------------------------------------------------------------------------
    def order_listing(self, items):
        items = sorted(items)
        if self.list_mode == 'sorted':
            return items
        if self.list_mode == 'reversed':
            return items[::-1]
        self.list_rng.shuffle(items)
        return items

    def sim_listdir(self, path='.'):
        out = os.listdir(path)
        if self.active and self.under_root(path) is not None:
            return self.order_listing(out)
        return out

    # -- free space -----------------------------------------------------------------------------------
    def sim_statvfs(self, path):
        real = os.statvfs(path)
        self.statvfs_calls += 1
        if self.active and self.statvfs_full:
            vals = list(real)
            # f_bfree, f_bavail
            vals[3] = 0
            vals[4] = 0
            return os.statvfs_result(tuple(vals))
        return real

    # -- open / shutil ---------------------------------------------------------------------------------
    def sim_open(self, file, mode='r', *a, **k):
        if self.active and not isinstance(file, int):
            kind = 'open_w' if any(c in mode for c in 'wax+') else 'open_r'
            self.io_event(kind, file, mode)
        return builtins.open(file, mode, *a, **k)

    def sim_copy(self, src, dst, *a, **k):
        self.io_event('copy_src', src, 'r')
        self.io_event('copy', dst, 'w')
        return _shutil.copy(src, dst, *a, **k)

    def sim_copyfile(self, src, dst, *a, **k):
        self.io_event('copy_src', src, 'r')
        self.io_event('copy', dst, 'w')
        return _shutil.copyfile(src, dst, *a, **k)

    def sim_move(self, src, dst, *a, **k):
        self.io_event('move_src', src, 'w')
        self.io_event('move', dst, 'w')
        return _shutil.move(src, dst, *a, **k)


class _Call(object):
    """context manager: one stage call under its own scheduler"""

    def __init__(self, kernel, spec):
        self.k = kernel
        self.spec = spec or {}
        self.sched = None

    def __enter__(self):
        k = self.k
        rebind_repo_modules()
        spec = self.spec
        rd = k.replay_decisions
        if rd and len(k.calls) < len(rd) and rd[len(k.calls)] and 'decisions' not in spec:
            spec = dict(spec, decisions=rd[len(k.calls)])
        self.sched = Scheduler(k, spec, len(k.calls))
        self.ev0 = len(k.events)
        k.calls.append(self.sched)
        k.sched_stack.append(self.sched)
        return self.sched

    def __exit__(self, et, ev, tb):
        k = self.k
        if k.in_child:
            return False
        try:
            self.sched.n_orphans = self.sched.finish(self.spec.get('orphans', 'kill'))
        finally:
            if k.sched_stack and k.sched_stack[-1] is self.sched:
                k.sched_stack.pop()
            # every worker of the call is dead and joined: release the sentinel pipe multiprocessing keeps per
            # Process object (the objects themselves stay referenced by the scheduler for the evidence, and a grid
            # of a few hundred executions would otherwise run the process past 1024 descriptors)
            for p in self.sched.procs:
                if p._sim_state == 'exited':
                    fin = getattr(getattr(p, '_popen', None), 'finalizer', None)
                    if fin is not None:
                        try:
                            fin()
                        except Exception:
                            pass
        self.sched.parent_events = k.events[self.ev0:]
        return False


KERNEL = Kernel()


# ---------------------------------------------------------------------------
# seam injection
# ---------------------------------------------------------------------------

class Shim(types.ModuleType):
    def __init__(self, real, **over):
        super().__init__(real.__name__)
        self.__dict__['_real'] = real
        self.__dict__.update(over)

    def __getattr__(self, key):
        return getattr(self.__dict__['_real'], key)


class _SimDateTime(_datetime.datetime):
    @classmethod
    def now(cls, tz=None):
        if KERNEL.active:
            return KERNEL.sim_now(tz)
        return _datetime.datetime.now(tz)

    @classmethod
    def utcnow(cls):
        if KERNEL.active:
            return KERNEL.sim_now()
        return _datetime.datetime.utcnow()


def _t(fn_sim, fn_real):
    def f(*a, **k):
        if KERNEL.active:
            return fn_sim(*a, **k)
        return fn_real(*a, **k)
    f.__name__ = getattr(fn_real, '__name__', 'f')
    return f


_SHIMS = None
_FUNC_MAP = None


def _build_shims():
    global _SHIMS, _FUNC_MAP
    k = KERNEL
    sim_time = _t(k.sim_time, _time.time)
    sim_sleep = _t(k.sim_sleep, _time.sleep)
    mk_d = _t(k.sim_mkdtemp, _tempfile.mkdtemp)
    mk_s = _t(k.sim_mkstemp, _tempfile.mkstemp)
    gtd = _t(k.sim_gettempdir, _tempfile.gettempdir)
    sv = _t(k.sim_statvfs, os.statvfs)
    ld = _t(k.sim_listdir, os.listdir)
    cp = _t(k.sim_copy, _shutil.copy)
    cpf = _t(k.sim_copyfile, _shutil.copyfile)
    mv = _t(k.sim_move, _shutil.move)
    _SHIMS = {
        id(_mp): Shim(_mp, Process=SimProcess, active_children=sim_active_children),
        id(_time): Shim(_time, time=sim_time, sleep=sim_sleep, perf_counter=sim_time,
                        monotonic=sim_time),
        id(_tempfile): Shim(_tempfile, mkdtemp=mk_d, mkstemp=mk_s, gettempdir=gtd),
        id(os): Shim(os, statvfs=sv, listdir=ld),
        id(_shutil): Shim(_shutil, copy=cp, copyfile=cpf, move=mv),
        id(_datetime): Shim(_datetime, datetime=_SimDateTime),
    }
    _FUNC_MAP = {
        id(RealProcess): SimProcess,
        id(_time.time): sim_time,
        id(_time.sleep): sim_sleep,
        id(_tempfile.mkdtemp): mk_d,
        id(_tempfile.mkstemp): mk_s,
        id(os.statvfs): sv,
        id(os.listdir): ld,
        id(_shutil.copy): cp,
        id(_shutil.move): mv,
        id(_datetime.datetime): _SimDateTime,
    }


def sim_active_children():
    """multiprocessing.active_children() for a parent inside a simulated call: the workers of the current scheduler
    whose exit has not been observed yet (each query is an exit-code poll, i.e. a yield point)"""
    k = KERNEL
    if not k.active or k.in_child or not k.sched_stack:
        return _mp.active_children()
    return [p for p in list(k.sched_stack[-1].procs) if p.exitcode is None]


def _sim_open(file, mode='r', *a, **k):
    return KERNEL.sim_open(file, mode, *a, **k)


_REBOUND = {}


def import_repo_modules(skip=('.data.', 'gpu_utils')):
    import cell_type_mapper
    failed = []
    for m in pkgutil.walk_packages(cell_type_mapper.__path__, 'cell_type_mapper.'):
        if any(s in m.name for s in skip):
            continue
        try:
            importlib.import_module(m.name)
        except Exception as e:       # argschema-dependent modules import fine; anything else is noted
            failed.append((m.name, repr(e)[:100]))
    return failed


def rebind_repo_modules():
    """rebind stdlib module globals of every loaded repo module to the shims (idempotent)"""
    if _SHIMS is None:
        _build_shims()
    n = 0
    for name, mod in list(sys.modules.items()):
        if mod is None or not (name == 'cell_type_mapper' or name.startswith('cell_type_mapper.')):
            continue
        if _REBOUND.get(name) is mod:
            continue
        d = vars(mod)
        for key, val in list(d.items()):
            sh = _SHIMS.get(id(val))
            if sh is None:
                sh = _FUNC_MAP.get(id(val))
            if sh is not None:
                d[key] = sh
                n += 1
        d['open'] = _sim_open
        _REBOUND[name] = mod
    return n


def install_hooks():
    """process-global wrappers (h5py.File, pathlib.Path.iterdir); inert when the kernel is inactive"""
    k = KERNEL
    if k.hooks_installed:
        return
    k.hooks_installed = True
    import h5py

    orig_init = h5py.File.__init__

    def file_init(self, name, mode='r', *a, **kw):
        if KERNEL.active:
            m = mode if isinstance(mode, str) else 'r'
            KERNEL.io_event('h5open_w' if m != 'r' else 'h5open_r', name, m)
        return orig_init(self, name, mode, *a, **kw)
    h5py.File.__init__ = file_init

    # ---- blocking waits on worker sentinels (multiprocessing.connection.wait): a parked worker never exits by
    # itself, so a parent that blocks on the sentinels of simulated workers would wait forever.  The wait is a
    # yield point at which the scheduler releases one of the waited-for workers at a time until at least one has
    # exited; every worker that has exited by then is reported ready (and its exit becomes visible).
    import multiprocessing.connection as _mpc
    orig_wait = _mpc.wait

    def sim_conn_wait(object_list, timeout=None):
        kk = KERNEL
        if not kk.active or kk.in_child or not kk.sched_stack:
            return orig_wait(object_list, timeout)
        sch = kk.sched_stack[-1]
        by_sentinel = {}
        for p in sch.procs:
            try:
                by_sentinel[RealProcess.sentinel.fget(p)] = p
            except Exception:
                pass
        mine = [(o, by_sentinel[o]) for o in object_list if not hasattr(o, 'fileno') and o in by_sentinel]
        if not mine:
            return orig_wait(object_list, timeout)
        while True:
            done = [o for o, p in mine if p._sim_state == 'exited']
            if done:
                for o, p in mine:
                    if p._sim_state == 'exited' and not p._sim_visible:
                        sch._make_visible(p)
                return done
            cand = [p for o, p in mine if p._sim_state != 'exited']
            sch.release(cand[sch._draw(len(cand))] if len(cand) > 1 else cand[0])
    _mpc.wait = sim_conn_wait

    orig_create = h5py.Group.create_dataset

    def create_dataset(self, name, *a, **kw):
        if KERNEL.active and KERNEL.fine_io:
            try:
                fn = self.file.filename
            except Exception:
                fn = None
            KERNEL.io_event('h5create', fn, str(name))
        return orig_create(self, name, *a, **kw)
    h5py.Group.create_dataset = create_dataset

    orig_set = h5py.Dataset.__setitem__

    def ds_setitem(self, args, val):
        if KERNEL.active and KERNEL.fine_io:
            try:
                fn = self.file.filename
            except Exception:
                fn = None
            KERNEL.io_event('h5write', fn, self.name)
        return orig_set(self, args, val)
    h5py.Dataset.__setitem__ = ds_setitem

    import multiprocessing.managers as _mgrs
    orig_call = _mgrs.BaseProxy._callmethod

    def callmethod(self, methodname, args=(), kwds={}):
        if not KERNEL.active:
            return orig_call(self, methodname, args, kwds)
        KERNEL.rpc_event(methodname)
        out = orig_call(self, methodname, args, kwds)
        if KERNEL.in_child:
            if methodname == 'acquire' and out is not False:
                KERNEL.child_lock_depth += 1
            elif methodname == 'release':
                KERNEL.child_lock_depth = max(0, KERNEL.child_lock_depth - 1)
        return out
    _mgrs.BaseProxy._callmethod = callmethod

    orig_iterdir = pathlib.Path.iterdir

    def iterdir(self):
        if KERNEL.active and KERNEL.under_root(self) is not None:
            KERNEL.fs_yield('iterdir')
            items = KERNEL.order_listing(list(orig_iterdir(self)))
            return iter(items)
        return orig_iterdir(self)
    pathlib.Path.iterdir = iterdir

    # clean-up yield points of the parent: between listing a directory, unlinking its files and
    # removing it, workers that are still alive (orphans of a failed pool) may run
    orig_unlink = pathlib.Path.unlink
    orig_rmdir = pathlib.Path.rmdir

    def unlink(self, *a, **kw):
        if KERNEL.active and KERNEL.under_root(self) is not None:
            KERNEL.fs_yield('unlink')
        return orig_unlink(self, *a, **kw)

    def rmdir(self):
        if KERNEL.active and KERNEL.under_root(self) is not None:
            KERNEL.fs_yield('rmdir')
        return orig_rmdir(self)
    pathlib.Path.unlink = unlink
    pathlib.Path.rmdir = rmdir


# ---------------------------------------------------------------------------
# reading back what the workers did
# ---------------------------------------------------------------------------

def read_child_traces(trace_dir, call_id=None):
    """{(call, worker): [records]}"""
    out = {}
    if not os.path.isdir(trace_dir):
        return out
    for fn in sorted(os.listdir(trace_dir)):
        if not (fn.startswith('w_') and fn.endswith('.jsonl')):
            continue
        _, c, w = fn[:-6].split('_')
        c = int(c)
        w = int(w)
        if call_id is not None and c != call_id:
            continue
        recs = []
        with builtins.open(os.path.join(trace_dir, fn)) as f:
            for line in f:
                line = line.strip()
                if line:
                    try:
                        recs.append(json.loads(line))
                    except ValueError:
                        pass     # torn last line of a SIGKILLed worker
        out[(c, w)] = recs
    return out


def event_digest(kernel, trace_dir):
    """hash of everything the simulator decided and observed in this scenario"""
    h = hashlib.sha256()
    for s in kernel.calls:
        h.update(json.dumps(s.log, sort_keys=True).encode())
        h.update(json.dumps(s.decisions).encode())
    h.update(json.dumps(kernel.events, sort_keys=True).encode())
    tr = read_child_traces(trace_dir)
    for key in sorted(tr):
        h.update(repr(key).encode())
        h.update(json.dumps(tr[key], sort_keys=True).encode())
    return h.hexdigest()[:16]


def write_set_conflicts(sched, trace_dir):
    """
    Write-set isolation monitor (DESIGN 3.4).  Returns a list of conflicts:
    a path opened for writing by a worker that is also touched by another worker of
    the same call whose lifetime overlaps, or by the parent between that worker's
    start and the moment its exit became visible.
    """
    traces = read_child_traces(trace_dir, sched.call_id)
    wsets, rsets = {}, {}
    for (c, w), recs in traces.items():
        ws, rs = set(), set()
        for r in recs:
            if r.get('ev') != 'io':
                continue
            if r['kind'] in ('mkdtemp', 'mkstemp'):
                continue        # creation of a fresh unique name (the event carries only the pattern)
            if r['kind'] in WRITE_KINDS:
                ws.add(r['path'])
            else:
                rs.add(r['path'])
        wsets[w], rsets[w] = ws, rs
    # lifetimes in scheduler-log positions
    start, vis = {}, {}
    for i, e in enumerate(sched.log):
        if e[0] == 'start':
            start[e[1]] = i
        elif e[0] == 'visible':
            vis[e[1]] = i
    end = len(sched.log)
    conflicts = []
    # parent vs worker: the parent touching a path a worker writes, between that worker's start and the
    # moment its exit became visible to the parent
    for ev in getattr(sched, 'parent_events', None) or []:
        if len(ev) < 6 or ev[4] != sched.call_id or ev[1] in ('mkdtemp', 'mkstemp', 'rpc'):
            continue
        pos = ev[5]
        for w, ws in wsets.items():
            if ev[2] in ws and start.get(w, 0) < pos <= vis.get(w, end):
                conflicts.append({'kind': 'parent-worker', 'worker': w, 'path': ev[2], 'parent_event': ev[1]})
    ids = sorted(wsets)
    for a in ids:
        for b in ids:
            if a >= b:
                continue
            a0, a1 = start.get(a, 0), vis.get(a, end)
            b0, b1 = start.get(b, 0), vis.get(b, end)
            if a0 < b1 and b0 < a1:
                shared = (wsets[a] & (wsets[b] | rsets[b])) | (wsets[b] & rsets[a])
                for pth in sorted(shared):
                    conflicts.append({'kind': 'worker-worker', 'workers': [a, b], 'path': pth})
    return conflicts
