"""
Orchestration: shards (fresh interpreters, one per core, distinct PYTHONHASHSEED),
aggregation, confirmation of violations in a fresh process, minimisation, replay
files, known findings, evidence.  See DESIGN.md sections 3.6, 3.7 and 9.
"""
import hashlib
import importlib
import json
import os
import random
import shutil
import subprocess
import sys
import time
import traceback

VERIF = os.path.dirname(os.path.dirname(os.path.abspath(__file__)))
PY = sys.executable

EXIT_OK, EXIT_VIOLATION, EXIT_HARNESS = 0, 1, 2

COMPONENTS = {
    'real': ['every line of cell_type_mapper on the CPU paths (CLI bodies via object.__new__, '
             'run_mapping with a plain dict)', 'h5py/HDF5 and anndata on real files',
             'numpy/scipy', 'multiprocessing.Process._bootstrap in genuinely forked children',
             'multiprocessing.Manager server process'],
    'simulated': ['which worker process runs and when its exit becomes visible (parked-fork scheduler)',
                  'worker kills/exits/raises at before/mid/after points', 'wall clock',
                  'temp-file names', 'directory listing order', 'free-space probe',
                  'parent-side I/O errors', 'interpreter hash seed (per shard)'],
    'stubbed_or_absent': ['argschema layer (unconstructible here; drivers supply schema defaults; for the on-the-fly '
                          'mapper, which constructs its sub-runners itself, ArgSchemaParser.__init__ is replaced '
                          'inside the simulator by a stub that fills self.args from the schema classes\' declared '
                          'defaults, without validation)',
                          'GPU/torch paths (torch absent)'],
}


def load_prop(pid):
    return importlib.import_module('props.%s' % pid.lower())


def scenario_seed(verif_seed, pid, idx):
    h = hashlib.sha256(('%d/%s/%d' % (verif_seed, pid, idx)).encode()).hexdigest()
    return int(h[:15], 16)


def scratch_root():
    return os.environ.get('VERIF_SCRATCH') or '/tmp/ctm-verif-%d' % os.getpid()


# ---------------------------------------------------------------------------
# running one scenario (used by shards, replay and the minimiser)
# ---------------------------------------------------------------------------

def run_one(mod, scn, base):
    """returns the result dict of the property module; hangs become a violation class"""
    from sim import harness, kernel
    sb = harness.Sandbox(base, layout=scn.get('layout'))
    kernel.KERNEL.replay_decisions = scn.get('_decisions')
    try:
        try:
            res = mod.run(scn, sb)
        except kernel.SimHang as e:
            res = {'violations': [{'cls': 'hang', 'detail': str(e)}], 'nontrivial': True,
                   'key': 'hang'}
        res.setdefault('violations', [])
        res['decisions'] = [list(s.decisions) for s in kernel.KERNEL.calls]
        try:
            res['event_digest'] = kernel.event_digest(kernel.KERNEL, sb.trace)
        except Exception:
            res['event_digest'] = None
        res.setdefault('ticks', kernel.KERNEL.n_ticks)
        return res
    finally:
        kernel.KERNEL.replay_decisions = None
        sb.destroy()


def redirect_std(logpath):
    sys.stdout.flush()
    sys.stderr.flush()
    fd = os.open(logpath, os.O_WRONLY | os.O_CREAT | os.O_APPEND, 0o644)
    os.dup2(fd, 1)
    os.dup2(fd, 2)
    os.close(fd)


def prepare_process():
    """common start-up of every process that runs simulated scenarios"""
    import faulthandler
    faulthandler.enable()
    os.environ.setdefault('OPENBLAS_NUM_THREADS', '1')
    os.environ.setdefault('OMP_NUM_THREADS', '1')
    os.environ.setdefault('MKL_NUM_THREADS', '1')
    if VERIF not in sys.path:
        sys.path.insert(0, VERIF)
    from sim import drivers, kernel
    drivers.ensure_repo_on_path()
    failed = kernel.import_repo_modules()
    if failed:
        raise RuntimeError('repo modules failed to import: %r' % (failed,))


# ---------------------------------------------------------------------------
# shard
# ---------------------------------------------------------------------------

def shard_main(pid, tier, shard, nshards, out_path, budget_s, quota, verif_seed):
    import faulthandler
    t0 = time.time()
    real_stdout = os.fdopen(os.dup(1), 'w')
    base = os.path.join(scratch_root(), 'shard%d' % shard)
    os.makedirs(base, exist_ok=True)
    redirect_std(os.path.join(base, 'sim.log'))
    prepare_process()
    mod = load_prop(pid)
    hs = os.environ.get('PYTHONHASHSEED', '')
    indices = mod.shard_indices(shard, nshards, quota) if hasattr(mod, 'shard_indices') \
        else range(shard, quota, nshards)
    n = 0
    status = 'done'
    with open(out_path, 'w') as out:
        for idx in indices:
            if time.time() - t0 > budget_s:
                status = 'budget'
                break
            seed = scenario_seed(verif_seed, pid, idx)
            rng = random.Random(seed)
            rec = {'idx': idx, 'seed': seed, 'hashseed': hs, 'shard': shard, 'seq': n}
            try:
                faulthandler.dump_traceback_later(600, exit=True)
                scn = mod.gen(rng, tier, idx)
                rec['scn'] = scn
                ts = time.time()
                rec['res'] = run_one(mod, scn, os.path.join(base, 's'))
                rec['wall'] = time.time() - ts
            except BaseException as e:     # harness defect: reported as such, never as a violation
                if isinstance(e, KeyboardInterrupt):
                    raise
                rec['harness_error'] = traceback.format_exc()[-3000:]
            finally:
                faulthandler.cancel_dump_traceback_later()
            out.write(json.dumps(rec, default=_jsonable) + '\n')
            out.flush()
            n += 1
        out.write(json.dumps({'shard_done': shard, 'n': n, 'status': status,
                              'wall': time.time() - t0}) + '\n')
    shutil.rmtree(base, ignore_errors=True)
    real_stdout.write('shard %d done %d\n' % (shard, n))
    return 0


def _confirm_with_history(pid, rp, rpath, r, records, root, max_trials=30):
    """
    The violation did not reproduce from its own scenario in a fresh process: it may depend on what ran EARLIER in
    the shard's process (state that outlives a run).  Try the scenario after growing suffixes of the shard's earlier
    scenarios, then drop predecessors one at a time while it still reproduces.  The replay file gets a 'history'.
    """
    preds = sorted((x for x in records if x.get('shard') == r.get('shard') and 'scn' in x and
                    x.get('hashseed') == r.get('hashseed') and x.get('seq', -1) < r.get('seq', -1)),
                   key=lambda x: x['seq'])
    if not preds:
        return False

    def attempt(hist):
        cand = dict(rp, history=[h['scn'] for h in hist], history_indices=[h['idx'] for h in hist])
        with open(rpath, 'w') as f:
            json.dump(cand, f, indent=1, default=_jsonable)
        env = dict(os.environ, VERIF_SCRATCH=os.path.join(root, 'confirm_h'))
        try:
            return subprocess.call([PY, os.path.join(VERIF, 'check.py'), pid, '--replay', rpath], env=env,
                                   stdout=subprocess.DEVNULL, stderr=subprocess.DEVNULL,
                                   timeout=1800) == EXIT_VIOLATION
        except subprocess.TimeoutExpired:
            return False
    k, hist, trials = 1, None, 0
    while True:
        trials += 1
        if attempt(preds[-k:]):
            hist = preds[-k:]
            break
        if k >= len(preds):
            break
        k = min(len(preds), k * 2)
    if hist is None:
        with open(rpath, 'w') as f:
            json.dump(rp, f, indent=1, default=_jsonable)
        return False
    i = 0
    while i < len(hist) and len(hist) > 1 and trials < max_trials:
        trials += 1
        cand = hist[:i] + hist[i + 1:]
        if attempt(cand):
            hist = cand
        else:
            i += 1
    return attempt(hist)


def _jsonable(o):
    import numpy as np
    if isinstance(o, (np.integer,)):
        return int(o)
    if isinstance(o, (np.floating,)):
        return float(o)
    if isinstance(o, np.ndarray):
        return o.tolist()
    if isinstance(o, (set, frozenset)):
        return sorted(o)
    if isinstance(o, bytes):
        return o.decode('utf-8', 'replace')
    return repr(o)


# ---------------------------------------------------------------------------
# replay / minimise (each runs in a fresh interpreter)
# ---------------------------------------------------------------------------

def replay_main(pid, path, quiet=False):
    """re-execute a replay file; exit 1 + VIOLATION line if the same violation class reproduces"""
    with open(path) as f:
        rp = json.load(f)
    want_hs = str(rp.get('hashseed', ''))
    if want_hs and os.environ.get('PYTHONHASHSEED', '') != want_hs:
        env = dict(os.environ, PYTHONHASHSEED=want_hs)
        return subprocess.call([PY, os.path.join(VERIF, 'check.py'), pid, '--replay', path], env=env)
    real_stdout = os.fdopen(os.dup(1), 'w')
    base = os.path.join(scratch_root(), 'replay')
    os.makedirs(base, exist_ok=True)
    redirect_std(os.path.join(base, 'sim.log'))
    prepare_process()
    mod = load_prop(pid)
    if hasattr(mod, 'replay') and not rp.get('history'):
        res = mod.replay(rp, os.path.join(base, 's'))
    else:
        # a history: scenarios that ran earlier in the same process, on the same paths (process-lifetime state such
        # as caches keyed by path survives from one run to the next); only the last one is judged
        for h in rp.get('history') or []:
            try:
                run_one(mod, h, os.path.join(base, 's'))
            except BaseException as e:
                if isinstance(e, KeyboardInterrupt):
                    raise
        res = run_one(mod, rp['scenario'], os.path.join(base, 's'))
    shutil.rmtree(base, ignore_errors=True)
    want = rp['violation']['cls']
    got = [v for v in res.get('violations', []) if v['cls'] == want]
    if got:
        real_stdout.write('reproduced: %s: %s\n' % (want, got[0].get('detail', '')[:600]))
        real_stdout.write('event_digest=%s (recorded %s)\n' % (res.get('event_digest'),
                                                               rp.get('event_digest')))
        real_stdout.write('VIOLATION property=%s replay=%s\n' % (pid, path))
        real_stdout.flush()
        return EXIT_VIOLATION
    real_stdout.write('not reproduced (wanted class %s, got %r)\n'
                      % (want, [v['cls'] for v in res.get('violations', [])]))
    real_stdout.flush()
    return EXIT_OK


def run_scn_main(pid, scn_path, out_path):
    """run one scenario file and dump the result (used for cross-interpreter replays)"""
    with open(scn_path) as f:
        scn = json.load(f)
    base = os.path.join(scratch_root(), 'runscn')
    os.makedirs(base, exist_ok=True)
    redirect_std(os.path.join(base, 'sim.log'))
    prepare_process()
    mod = load_prop(pid)
    res = run_one(mod, scn, os.path.join(base, 's'))
    with open(out_path, 'w') as f:
        json.dump(res, f, default=_jsonable)
    shutil.rmtree(base, ignore_errors=True)
    return 0


def minimise_main(pid, in_path, out_path, time_limit=90.0):
    with open(in_path) as f:
        rp = json.load(f)
    base = os.path.join(scratch_root(), 'min')
    os.makedirs(base, exist_ok=True)
    redirect_std(os.path.join(base, 'sim.log'))
    prepare_process()
    mod = load_prop(pid)
    want = rp['violation']['cls']
    cur = rp['scenario']
    cur_res = None
    t0 = time.time()
    steps = 0
    if hasattr(mod, 'shrink'):
        progress = True
        while progress and time.time() - t0 < time_limit:
            progress = False
            for cand in mod.shrink(cur, rp['violation']):
                if time.time() - t0 > time_limit:
                    break
                cand = dict(cand)
                cand.pop('_decisions', None)
                try:
                    res = run_one(mod, cand, os.path.join(base, 's'))
                except BaseException:
                    continue
                if any(v['cls'] == want for v in res.get('violations', [])):
                    cur, cur_res = cand, res
                    steps += 1
                    progress = True
                    break
    rp['scenario'] = cur
    rp['minimised_steps'] = steps
    if cur_res is not None:
        rp['violation'] = [v for v in cur_res['violations'] if v['cls'] == want][0]
        rp['event_digest'] = cur_res.get('event_digest')
        rp['decisions'] = cur_res.get('decisions')
    with open(out_path, 'w') as f:
        json.dump(rp, f, indent=1, default=_jsonable)
    shutil.rmtree(base, ignore_errors=True)
    return 0


# ---------------------------------------------------------------------------
# known findings
# ---------------------------------------------------------------------------

def load_known(pid):
    path = os.path.join(VERIF, 'known_findings.jsonl')
    out = []
    if os.path.exists(path):
        with open(path) as f:
            for line in f:
                line = line.strip()
                if not line or line.startswith('#'):
                    continue
                d = json.loads(line)
                if d.get('property') == pid and d.get('status') == 'known':
                    out.append(d)
    return out


def match_known(known, violation):
    for kf in known:
        m = kf.get('match', {})
        if all(violation.get(k) == v for k, v in m.items()):
            return kf
    return None


# ---------------------------------------------------------------------------
# the check itself
# ---------------------------------------------------------------------------

def _sweep_stale_scratch():
    """default scratch roots (/tmp/ctm-verif-<pid>) of checks that were killed: removed when their process is gone"""
    if os.environ.get('VERIF_SCRATCH'):
        return
    try:
        for name in os.listdir('/tmp'):
            if not name.startswith('ctm-verif-'):
                continue
            try:
                owner = int(name.rsplit('-', 1)[1])
            except ValueError:
                continue
            if owner == os.getpid():
                continue
            try:
                os.kill(owner, 0)
            except ProcessLookupError:
                shutil.rmtree(os.path.join('/tmp', name), ignore_errors=True)
            except PermissionError:
                pass
    except OSError:
        pass


def check_main(pid, tier):
    t0 = time.time()
    sys.path.insert(0, VERIF)
    mod = load_prop(pid)
    verif_seed = int(os.environ.get('VERIF_SEED', '0') or 0)
    quota = int(os.environ.get('VERIF_QUOTA', 0) or mod.QUOTA[tier])
    budget = float(os.environ.get('VERIF_BUDGET_S', 0) or mod.BUDGET[tier])
    ncpu = os.cpu_count() or 4
    nshards = int(os.environ.get('VERIF_SHARDS', 0) or min(16, ncpu))
    root = scratch_root()
    shutil.rmtree(root, ignore_errors=True)
    os.makedirs(root, exist_ok=True)
    _sweep_stale_scratch()
    ev_dir = os.environ.get('VERIF_EVIDENCE_DIR') or os.path.join(VERIF, 'evidence')
    rp_dir = os.environ.get('VERIF_REPLAY_DIR') or os.path.join(VERIF, 'replays')
    os.makedirs(ev_dir, exist_ok=True)
    os.makedirs(rp_dir, exist_ok=True)
    print('check %s tier=%s seed=%d quota=%d budget=%.0fs shards=%d repo_src=%s'
          % (pid, tier, verif_seed, quota, budget, nshards,
             os.environ.get('VERIF_REPO_SRC', '/repo/src')), flush=True)
    procs = []
    hashseeds = getattr(mod, 'HASHSEEDS', None)
    for i in range(nshards):
        env = dict(os.environ)
        env['PYTHONHASHSEED'] = str(hashseeds[i % len(hashseeds)] if hashseeds else i)
        env['OPENBLAS_NUM_THREADS'] = '1'
        env['OMP_NUM_THREADS'] = '1'
        env['VERIF_SCRATCH'] = root
        env['VERIF_SEED'] = str(verif_seed)
        outp = os.path.join(root, 'shard%d.jsonl' % i)
        cmd = [PY, os.path.join(VERIF, 'check.py'), pid, '--tier', tier, '--shard',
               '%d/%d' % (i, nshards), '--out', outp, '--budget', str(budget), '--quota', str(quota)]
        procs.append((i, outp, subprocess.Popen(cmd, env=env, stdout=subprocess.DEVNULL,
                                                stderr=subprocess.PIPE)))
    harness_errors = []
    deadline = t0 + budget * 2.5 + 300
    for i, outp, p in procs:
        try:
            _, err = p.communicate(timeout=max(5, deadline - time.time()))
        except subprocess.TimeoutExpired:
            p.kill()
            _, err = p.communicate()
            harness_errors.append('shard %d killed by wall timeout' % i)
            continue
        if p.returncode != 0:
            harness_errors.append('shard %d exit %s: %s' % (i, p.returncode,
                                                            (err or b'').decode()[-1500:]))
    records = []
    for i, outp, p in procs:
        done = False
        if os.path.exists(outp):
            with open(outp) as f:
                for line in f:
                    try:
                        d = json.loads(line)
                    except ValueError:
                        continue
                    if 'shard_done' in d:
                        done = True
                    else:
                        records.append(d)
        if not done and not any(('shard %d ' % i) in h for h in harness_errors):
            harness_errors.append('shard %d did not finish' % i)
    for r in records:
        if 'harness_error' in r:
            harness_errors.append('scenario %d: %s' % (r['idx'], r['harness_error'][-1200:]))
    records.sort(key=lambda r: (r['idx'], r['shard']))

    # ---- cross-shard oracle (same scenario under different hash seeds)
    cross_viol = []
    if hasattr(mod, 'cross_check'):
        cross_viol = mod.cross_check(records)

    # ---- collect violations
    found = []
    for r in records:
        for v in (r.get('res') or {}).get('violations', []):
            found.append((r, v))
    for r, v in cross_viol:
        found.append((r, v))
    known = load_known(pid)
    by_cls = {}
    for r, v in found:
        by_cls.setdefault(v['cls'], []).append((r, v))
    reported, known_hits, unconfirmed = [], [], []
    for cls in sorted(by_cls):
        r, v = by_cls[cls][0]
        kf = match_known(known, v)
        rp = {'property': pid, 'verif_seed': verif_seed, 'index': r['idx'],
              'hashseed': r.get('hashseed', ''), 'scenario': r['scn'], 'violation': v,
              'event_digest': (r.get('res') or {}).get('event_digest'),
              'decisions': (r.get('res') or {}).get('decisions'), 'tier': tier}
        if 'hashseeds' in v:
            rp['hashseeds'] = v['hashseeds']
        tag = hashlib.sha256(json.dumps([cls, r['scn']], sort_keys=True,
                                        default=_jsonable).encode()).hexdigest()[:10]
        rpath = os.path.join(rp_dir, '%s-%s.json' % (pid, tag))
        with open(rpath, 'w') as f:
            json.dump(rp, f, indent=1, default=_jsonable)
        env = dict(os.environ, VERIF_SCRATCH=os.path.join(root, 'confirm'))
        rc = subprocess.call([PY, os.path.join(VERIF, 'check.py'), pid, '--replay', rpath],
                             env=env, stdout=subprocess.DEVNULL, stderr=subprocess.DEVNULL,
                             timeout=1200)
        with_history = False
        if rc != EXIT_VIOLATION and 'hashseeds' not in v:
            with_history = _confirm_with_history(pid, rp, rpath, r, records, root)
            rc = EXIT_VIOLATION if with_history else rc
        if rc != EXIT_VIOLATION:
            unconfirmed.append((cls, rpath, v))
            continue
        if kf is not None:
            known_hits.append((kf, v, len(by_cls[cls])))
            os.unlink(rpath)
            continue
        # minimise, then confirm the minimised file
        mpath = rpath[:-5] + '.min.json'
        if os.environ.get('VERIF_NO_MINIMISE') != '1' and not with_history:
            try:
                env = dict(os.environ, VERIF_SCRATCH=os.path.join(root, 'minimise'))
                subprocess.call([PY, os.path.join(VERIF, 'check.py'), pid, '--minimise', rpath, mpath],
                                env=env, stdout=subprocess.DEVNULL, stderr=subprocess.DEVNULL,
                                timeout=600)
                if os.path.exists(mpath):
                    rc2 = subprocess.call([PY, os.path.join(VERIF, 'check.py'), pid, '--replay', mpath],
                                          env=dict(os.environ,
                                                   VERIF_SCRATCH=os.path.join(root, 'confirm2')),
                                          stdout=subprocess.DEVNULL, stderr=subprocess.DEVNULL,
                                          timeout=1200)
                    if rc2 == EXIT_VIOLATION:
                        os.replace(mpath, rpath)
                    else:
                        os.unlink(mpath)
            except Exception:
                if os.path.exists(mpath):
                    os.unlink(mpath)
        reported.append((cls, rpath, v, len(by_cls[cls])))

    wall = time.time() - t0
    ev = build_evidence(mod, pid, tier, verif_seed, records, wall, len(reported), nshards,
                        known_hits, unconfirmed, harness_errors)
    evpath = os.path.join(ev_dir, '%s.json' % pid)
    with open(evpath + '.tmp', 'w') as f:
        json.dump(ev, f, indent=1, default=_jsonable)
    os.replace(evpath + '.tmp', evpath)
    shutil.rmtree(root, ignore_errors=True)

    cov = ev['coverage']
    print('%s: %d scenarios (%d evaluations), %d distinct non-trivial, %d interleavings, '
          '%.0f scenarios/hour, wall %.1fs' % (pid, len(records), cov['evaluations'],
                                               cov['distinct_nontrivial'],
                                               cov.get('distinct_interleavings', 0),
                                               cov.get('scenarios_per_hour', 0), wall))
    print('faults fired: %s' % json.dumps(cov.get('faults_fired', {}), sort_keys=True))
    print('probes: %s' % json.dumps(cov.get('probes', {}), sort_keys=True))
    for kf, v, n in known_hits:
        print('KNOWN-FINDING: property=%s %s (seen %d times this run)' % (pid, kf.get('what', ''), n))
    for cls, rpath, v, n in reported:
        print('violation class %s (%d occurrences): %s' % (cls, n, v.get('detail', '')[:800]))
        print('VIOLATION property=%s replay=%s' % (pid, rpath))
    if harness_errors or unconfirmed:
        for h in harness_errors[:10]:
            print('HARNESS-ERROR: %s' % h)
        for cls, rpath, v in unconfirmed:
            print('HARNESS-ERROR: unconfirmed (did not reproduce from its replay file) class=%s file=%s: %s'
                  % (cls, rpath, v.get('detail', '')[:300]))
        if not reported:
            return EXIT_HARNESS
    if reported:
        return EXIT_VIOLATION
    if len(records) == 0:
        print('HARNESS-ERROR: nothing was explored')
        return EXIT_HARNESS
    return EXIT_OK


def build_evidence(mod, pid, tier, verif_seed, records, wall, n_viol, nshards, known_hits,
                   unconfirmed, harness_errors):
    evals = 0
    keys = set()
    inter = set()
    faults = {}
    probes = {}
    not_judged = {}
    ticks = 0.0
    samples = []
    extra = {}
    for r in records:
        res = r.get('res') or {}
        evals += int(res.get('evaluations', 1))
        if res.get('nontrivial'):
            for k in (res.get('keys') or [res.get('key', 'idx%d' % r['idx'])]):
                keys.add(k)
        for h in res.get('interleavings', []):
            inter.add(h)
        for k, n in (res.get('faults') or {}).items():
            faults[k] = faults.get(k, 0) + n
        for k, n in (res.get('probes') or {}).items():
            probes[k] = probes.get(k, 0) + n
        for k, n in (res.get('not_judged') or {}).items():
            not_judged[k] = not_judged.get(k, 0) + n
        ticks += float(res.get('ticks', 0.0))
        if len(samples) < 3 and res.get('sample') is not None:
            samples.append(res['sample'])
    if hasattr(mod, 'extra_evidence'):
        extra = mod.extra_evidence(records)
    if not samples:
        samples = [{'note': 'no scenario produced a sample'}]
    cov = {
        'evaluations': evals,
        'distinct_nontrivial': len(keys),
        'rule': mod.RULE,
        'samples': samples,
        'scenarios': len(records),
        'scenarios_per_hour': round(len(records) / max(wall, 1e-9) * 3600.0, 1),
        'seeds': len(set(r['seed'] for r in records)),
        'seeds_per_hour': round(len(set(r['seed'] for r in records)) / max(wall, 1e-9) * 3600.0, 1),
        'simulated_ticks': round(ticks, 3),
        'faults_fired': faults,
        'distinct_interleavings': len(inter),
        'interleaving_measure': 'sha256 of the scheduler event sequence start(i,inflight)/release(i)/'
                                'pause(i)/exit(i,code)/visible(i) of every stage call in the scenario',
        'probes': probes,
        'not_judged': not_judged,
        'shards': nshards,
        'hash_seeds': sorted(set(str(r.get('hashseed')) for r in records)),
        'known_findings_seen': [kf.get('key') for kf, v, n in known_hits],
        'unconfirmed': len(unconfirmed),
        'harness_errors': len(harness_errors),
        'components': COMPONENTS,
        'exhaustive': False,
    }
    cov.update(extra)
    return {
        'property_id': pid,
        'tier': tier,
        'seed': verif_seed,
        'level': mod.LEVEL,
        'coverage': cov,
        'assumptions': list(getattr(mod, 'ASSUMPTIONS', [])),
        'wall_s': round(wall, 2),
        'violations': n_viol,
    }
