"""
Sandbox, footprint snapshots, canonical digests and the run-one-call helper shared by
all property modules.
"""
import gc
import hashlib
import json
import os
import shutil
import stat

import numpy as np

from . import kernel
from .kernel import KERNEL


class Sandbox(object):
    """base/{in,out,scratch,systmp} plus a trace directory outside of base"""

    def __init__(self, base, layout=None):
        self.base = os.path.realpath(base)
        shutil.rmtree(self.base, ignore_errors=True)
        self.trace = self.base + '.trace'
        shutil.rmtree(self.trace, ignore_errors=True)
        os.makedirs(self.trace)
        layout = layout or {}
        self.dirs = {}
        for d in ('in', 'out', 'scratch', 'systmp'):
            p = os.path.join(self.base, layout.get(d, d))
            os.makedirs(p, exist_ok=True)
            self.dirs[d] = p

    def p(self, d, *names):
        return os.path.join(self.dirs[d], *names)

    def begin(self, name_seed=0, list_seed=0, clock_start=1.7e9, clock_tick=0.001,
              list_mode='perm'):
        KERNEL.begin_scenario(self.base, self.trace, self.dirs['systmp'], name_seed=name_seed,
                              list_seed=list_seed, clock_start=clock_start,
                              clock_tick=clock_tick, list_mode=list_mode)

    def end(self):
        KERNEL.end_scenario()
        gc.collect()

    def destroy(self):
        self.end()
        shutil.rmtree(self.base, ignore_errors=True)
        shutil.rmtree(self.trace, ignore_errors=True)

    # -- footprint ------------------------------------------------------------------------------
    def listing(self, d=None, with_hash=False):
        """{relative path: (kind, size[, sha256])} of everything under base (or one of its dirs)"""
        top = self.base if d is None else self.dirs[d]
        out = {}
        stack = [top]
        while stack:
            cur = stack.pop()
            try:
                entries = sorted(os.scandir(cur), key=lambda e: e.name)
            except FileNotFoundError:
                continue
            for e in entries:
                rel = os.path.relpath(e.path, top)
                if e.is_dir(follow_symlinks=False):
                    out[rel + '/'] = ('d', 0)
                    stack.append(e.path)
                else:
                    st = e.stat(follow_symlinks=False)
                    if with_hash:
                        out[rel] = ('f', st.st_size, file_sha(e.path), st.st_mtime_ns)
                    else:
                        out[rel] = ('f', st.st_size)
        return out


def file_sha(path):
    h = hashlib.sha256()
    with open(path, 'rb') as f:
        while True:
            b = f.read(1 << 20)
            if not b:
                break
            h.update(b)
    return h.hexdigest()[:20]


def run_call(spec, fn, *a, **k):
    """one stage call under its own scheduler.  Returns (outcome, sched)"""
    from . import drivers
    with KERNEL.call(spec) as sched:
        out = drivers.outcome_of(fn, *a, **k)
    gc.collect()
    return out, sched


# ---------------------------------------------------------------------------
# canonical digests
# ---------------------------------------------------------------------------

VOLATILE_JSON_KEYS = ('metadata', 'log', 'config')


def _strip_tree_metadata(obj):
    if isinstance(obj, dict) and 'hierarchy' in obj and 'metadata' in obj:
        obj = {k: v for k, v in obj.items() if k != 'metadata'}
    return obj


def json_digest(path_or_obj, drop=VOLATILE_JSON_KEYS, keep=None):
    if isinstance(path_or_obj, (str, os.PathLike)):
        with open(path_or_obj, 'rb') as f:
            obj = json.load(f)
    else:
        obj = path_or_obj
    if isinstance(obj, dict):
        obj = {k: v for k, v in obj.items() if k not in drop and (keep is None or k in keep)}
        if 'taxonomy_tree' in obj:
            obj['taxonomy_tree'] = _strip_tree_metadata(obj['taxonomy_tree'])
    s = json.dumps(obj, sort_keys=True)
    return hashlib.sha256(s.encode()).hexdigest()[:16]


def h5_digest(path, skip=('metadata',), json_datasets=('taxonomy_tree',), parts=False, content_only=False):
    """dataset names, dtypes, shapes and raw bytes; volatile metadata excluded; JSON datasets parsed"""
    import h5py
    h = hashlib.sha256()
    plist = []

    def visit(name, obj):
        if not isinstance(obj, h5py.Dataset):
            return
        top = name.split('/')[0]
        if top in skip:
            return
        v = obj[()]
        if name in json_datasets:
            try:
                d = json.loads(v.decode('utf-8') if isinstance(v, bytes) else v)
                d = _strip_tree_metadata(d)
                b = json.dumps(d, sort_keys=True).encode()
            except Exception:
                b = bytes(v) if isinstance(v, bytes) else np.ascontiguousarray(v).tobytes()
        elif isinstance(v, bytes):
            b = v
        elif isinstance(v, str):
            b = v.encode()
        elif getattr(v, 'dtype', None) is not None and v.dtype == object:
            # variable-length strings: the raw buffer holds pointers, so digest the values
            b = json.dumps([x.decode('utf-8', 'replace') if isinstance(x, bytes) else str(x)
                            for x in np.asarray(v).ravel().tolist()]).encode()
        elif content_only and getattr(v, 'dtype', None) is not None and v.dtype.kind in 'iu':
            # the VALUES only: integer width / signedness is a storage decision
            b = np.ascontiguousarray(np.asarray(v).astype(np.int64)).tobytes()
        else:
            b = np.ascontiguousarray(v).tobytes()
        one = hashlib.sha256(b).hexdigest()[:10]
        dt = str(obj.dtype) if not (content_only and obj.dtype.kind in 'iu') else 'int'
        plist.append((name, dt, tuple(obj.shape), one))
        h.update(repr((name, dt, tuple(obj.shape))).encode())
        h.update(b)
    with h5py.File(path, 'r') as f:
        names = []
        f.visititems(lambda n, o: names.append(n))
        for n in sorted(names):
            visit(n, f[n])
    if parts:
        return h.hexdigest()[:16], plist
    return h.hexdigest()[:16]


def interleaving_hash(sched_list):
    h = hashlib.sha256()
    for s in sched_list:
        h.update(json.dumps(s.log).encode())
    return h.hexdigest()[:16]


def sim_ticks():
    return KERNEL.clock
