"""
Stage drivers: they call real repository code only (CLI bodies via object.__new__,
run_mapping with a plain dict, and the library entry points the CLI bodies call).
Nothing of the repository is re-implemented here.
"""
import contextlib
import gc
import io
import os
import sys
import warnings


def repo_src():
    return os.environ.get('VERIF_REPO_SRC', '/repo/src')


def ensure_repo_on_path():
    src = repo_src()
    if sys.path[0] != src:
        if src in sys.path:
            sys.path.remove(src)
        sys.path.insert(0, src)
    import cell_type_mapper
    got = os.path.realpath(os.path.dirname(os.path.dirname(cell_type_mapper.__file__)))
    if got != os.path.realpath(src):
        raise RuntimeError('cell_type_mapper imported from %s, expected %s' % (got, src))


@contextlib.contextmanager
def quiet():
    with warnings.catch_warnings():
        warnings.simplefilter('ignore')
        yield


def outcome_of(fn, *a, **k):
    """run fn; return ('ok', value) or ('raised', 'Type: msg').  SimHang and harness errors propagate."""
    try:
        with quiet():
            v = fn(*a, **k)
        return ('ok', v)
    except Exception as e:           # noqa: the simulated system failing is an outcome, not an error
        msg = '%s: %s' % (type(e).__name__, str(e)[:500])
        del e
        return ('raised', msg)
    finally:
        gc.collect()


# ---------------------------------------------------------------------------
# mapping
# ---------------------------------------------------------------------------

def mapping_config(query_path, stats_path, marker_path, out_dir, tmp_dir, tag='out', **kw):
    ta = dict(bootstrap_iteration=kw.pop('bootstrap_iteration', 5),
              bootstrap_factor=kw.pop('bootstrap_factor', 0.7),
              bootstrap_factor_lookup=kw.pop('bootstrap_factor_lookup', None),
              chunk_size=kw.pop('chunk_size', 4),
              normalization=kw.pop('normalization', 'raw'),
              rng_seed=kw.pop('rng_seed', 11),
              n_runners_up=kw.pop('n_runners_up', 2),
              min_markers=kw.pop('min_markers', 3),
              n_processors=kw.pop('n_processors', 3))
    out_dir = str(out_dir)
    cfg = dict(query_path=str(query_path),
               extended_result_path=os.path.join(out_dir, tag + '.json'),
               hdf5_result_path=os.path.join(out_dir, tag + '.h5'),
               csv_result_path=os.path.join(out_dir, tag + '.csv'),
               summary_metadata_path=None,
               obsm_key=None, obsm_clobber=False,
               log_path=os.path.join(out_dir, tag + '.log'),
               tmp_dir=str(tmp_dir) if tmp_dir is not None else None,
               extended_result_dir=None,
               drop_level=None, flatten=False, max_gb=1.0, cloud_safe=False,
               map_to_ensembl=False,
               precomputed_stats={'path': str(stats_path)},
               query_markers={'serialized_lookup': str(marker_path)},
               type_assignment=ta)
    for k in list(kw):
        if k in cfg:
            cfg[k] = kw.pop(k)
    if kw:
        raise KeyError('unknown mapping config keys %r' % (list(kw),))
    if cfg['tmp_dir'] is None and cfg['extended_result_dir'] is None:
        cfg['extended_result_dir'] = out_dir
    return cfg


def run_mapping(cfg):
    from cell_type_mapper.cli.from_specified_markers import run_mapping as _rm
    return _rm(cfg, output_path=cfg['extended_result_path'], log_path=cfg['log_path'],
               hdf5_output_path=cfg['hdf5_result_path'])


# ---------------------------------------------------------------------------
# reference statistics
# ---------------------------------------------------------------------------

def run_precompute(h5ad_paths, taxonomy_dict, output_path, tmp_dir, rows_at_a_time=7,
                   n_processors=3, normalization='raw', copy_data_over=False):
    """statistics from one or several h5ad files and a taxonomy whose leaves list cell names"""
    from cell_type_mapper.taxonomy.taxonomy_tree import TaxonomyTree
    from cell_type_mapper.diff_exp import precompute_from_anndata as pfa
    tree = TaxonomyTree(data=taxonomy_dict)
    return pfa.precompute_summary_stats_from_h5ad_list_and_tree(
        data_path_list=[str(p) for p in h5ad_paths],
        taxonomy_tree=tree,
        output_path=str(output_path),
        rows_at_a_time=rows_at_a_time,
        normalization=normalization,
        tmp_dir=str(tmp_dir),
        n_processors=n_processors,
        copy_data_over=copy_data_over)


def run_precompute_columns(h5ad_path, column_hierarchy, output_path, tmp_dir, rows_at_a_time=7,
                           n_processors=3, normalization='raw'):
    """statistics from one h5ad file whose obs columns define the taxonomy"""
    from cell_type_mapper.diff_exp import precompute_from_anndata as pfa
    return pfa.precompute_summary_stats_from_h5ad(
        data_path=str(h5ad_path), column_hierarchy=list(column_hierarchy), taxonomy_tree=None,
        output_path=str(output_path), rows_at_a_time=rows_at_a_time,
        normalization=normalization, tmp_dir=str(tmp_dir), n_processors=n_processors)


# ---------------------------------------------------------------------------
# reference markers (CLI body), p-value route, query markers (CLI body)
# ---------------------------------------------------------------------------

REFMARKER_DEFAULTS = dict(n_processors=3, exact_penetrance=False, p_th=0.01, q1_th=0.5,
                          q1_min_th=0.1, qdiff_th=0.7, qdiff_min_th=0.1, log2_fold_th=1.0,
                          log2_fold_min_th=0.8, n_valid=30, max_gb=1.0, query_path=None,
                          drop_level=None, clobber=False, cloud_safe=False)


def run_reference_markers(stats_paths, output_dir, tmp_dir, **kw):
    """the reference-marker CLI body; writes <output_dir>/reference_markers.h5"""
    from cell_type_mapper.cli.reference_markers import ReferenceMarkerRunner
    r = object.__new__(ReferenceMarkerRunner)
    args = dict(REFMARKER_DEFAULTS)
    args.update(kw)
    args.update(precomputed_path_list=[str(p) for p in stats_paths], output_dir=str(output_dir),
                tmp_dir=str(tmp_dir) if tmp_dir is not None else None)
    r.args = args
    return r.run()


def run_find_markers(stats_path, output_path, tmp_dir, taxonomy_dict=None, **kw):
    """library entry point below the CLI body (lets the caller choose the output path)"""
    from cell_type_mapper.diff_exp.markers import find_markers_for_all_taxonomy_pairs
    from cell_type_mapper.taxonomy.taxonomy_tree import TaxonomyTree
    if taxonomy_dict is None:
        tree = TaxonomyTree.from_precomputed_stats(str(stats_path))
    else:
        tree = TaxonomyTree(data=taxonomy_dict)
    args = {k: v for k, v in REFMARKER_DEFAULTS.items()
            if k not in ('query_path', 'drop_level', 'clobber', 'cloud_safe')}
    args.update(kw)
    return find_markers_for_all_taxonomy_pairs(
        precomputed_stats_path=str(stats_path), taxonomy_tree=tree, output_path=str(output_path),
        tmp_dir=str(tmp_dir) if tmp_dir is not None else None, **args)


def run_p_value_mask(stats_path, dst_path, tmp_dir, **kw):
    from cell_type_mapper.diff_exp.p_value_mask import create_p_value_mask_file
    args = dict(p_th=0.01, q1_th=0.5, q1_min_th=0.1, qdiff_th=0.7, qdiff_min_th=0.1,
                log2_fold_th=1.0, log2_fold_min_th=0.8, n_processors=3, n_per=8)
    args.update(kw)
    return create_p_value_mask_file(precomputed_stats_path=str(stats_path), dst_path=str(dst_path),
                                    tmp_dir=str(tmp_dir) if tmp_dir is not None else None, **args)


def run_markers_from_p_mask(stats_path, mask_path, output_path, tmp_dir, **kw):
    from cell_type_mapper.diff_exp.p_value_markers import (
        find_markers_for_all_taxonomy_pairs_from_p_mask)
    args = dict(n_processors=3, max_gb=1.0, n_valid=30, gene_list=None, drop_level=None)
    args.update(kw)
    return find_markers_for_all_taxonomy_pairs_from_p_mask(
        precomputed_stats_path=str(stats_path), p_value_mask_path=str(mask_path),
        output_path=str(output_path), tmp_dir=str(tmp_dir) if tmp_dir is not None else None, **args)


def run_query_markers(ref_marker_paths, output_path, tmp_dir, **kw):
    """the query-marker CLI body"""
    from cell_type_mapper.cli.query_markers import QueryMarkerRunner
    r = object.__new__(QueryMarkerRunner)
    args = dict(query_path=None, n_per_utility=3, n_per_utility_override=None, n_processors=3,
                drop_level=None, genes_at_a_time=1, search_for_stats_file=False)
    args.update(kw)
    args.update(reference_marker_path_list=[str(p) for p in ref_marker_paths],
                output_path=str(output_path), tmp_dir=str(tmp_dir) if tmp_dir is not None else None)
    r.args = args
    return r.run()


def run_marker_lookup(ref_marker_paths, query_gene_names, tmp_dir, **kw):
    """library entry point below the query-marker CLI body; returns the lookup dict"""
    from cell_type_mapper.type_assignment.marker_cache_v2 import (
        create_marker_gene_lookup_from_ref_list)
    args = dict(n_per_utility=3, n_per_utility_override=None, n_processors=3,
                behemoth_cutoff=5000000, genes_at_a_time=1, drop_level=None,
                search_for_stats_file=False)
    args.update(kw)
    return create_marker_gene_lookup_from_ref_list(
        reference_marker_path_list=[str(p) for p in ref_marker_paths],
        query_gene_names=query_gene_names,
        tmp_dir=str(tmp_dir) if tmp_dir is not None else None, **args)


# ---------------------------------------------------------------------------
# parallel transposition
# ---------------------------------------------------------------------------

def run_transpose_v2(h5_path, output_path, tmp_dir, indices_max, use_data=True, max_gb=1.0,
                     n_processors=3, uint_ok=False):
    from cell_type_mapper.utils.csc_to_csr_parallel import transpose_sparse_matrix_on_disk_v2
    return transpose_sparse_matrix_on_disk_v2(
        h5_path=str(h5_path), indices_tag='indices', indptr_tag='indptr',
        data_tag='data' if use_data else None, indices_max=indices_max, max_gb=max_gb,
        output_path=str(output_path), output_mode='w', tmp_dir=str(tmp_dir),
        n_processors=n_processors, uint_ok=uint_ok)


# ---------------------------------------------------------------------------
# mapping library entry point (manager transport when results_output_path is None)
# ---------------------------------------------------------------------------

def run_type_assignment(query_path, stats_path, marker_cache_path, taxonomy_dict, tmp_dir,
                        results_output_path=None, n_processors=3, chunk_size=4,
                        bootstrap_factor=0.7, bootstrap_iteration=5, rng_seed=11,
                        n_assignments=3, normalization='raw', max_gb=1.0):
    import numpy as np
    from cell_type_mapper.taxonomy.taxonomy_tree import TaxonomyTree
    from cell_type_mapper.type_assignment.election_runner import run_type_assignment_on_h5ad
    tree = TaxonomyTree(data=taxonomy_dict)
    lookup = {lv: bootstrap_factor for lv in tree.hierarchy[:-1]}
    lookup['None'] = bootstrap_factor
    return run_type_assignment_on_h5ad(
        query_h5ad_path=str(query_path), precomputed_stats_path=str(stats_path),
        marker_gene_cache_path=str(marker_cache_path), taxonomy_tree=tree,
        n_processors=n_processors, chunk_size=chunk_size, bootstrap_factor_lookup=lookup,
        bootstrap_iteration=bootstrap_iteration, rng=np.random.default_rng(rng_seed),
        n_assignments=n_assignments, normalization=normalization,
        tmp_dir=str(tmp_dir) if tmp_dir is not None else None, log=None, max_gb=max_gb,
        results_output_path=str(results_output_path) if results_output_path else None)


def make_marker_cache(marker_lookup, reference_gene_names, query_gene_names, output_path,
                      taxonomy_dict, min_markers=1):
    from cell_type_mapper.taxonomy.taxonomy_tree import TaxonomyTree
    from cell_type_mapper.type_assignment.marker_cache_v2 import (
        create_marker_cache_from_specified_markers)
    tree = TaxonomyTree(data=taxonomy_dict)
    return create_marker_cache_from_specified_markers(
        marker_lookup=marker_lookup, reference_gene_names=list(reference_gene_names),
        query_gene_names=list(query_gene_names), output_cache_path=str(output_path),
        taxonomy_tree=tree, log=None, min_markers=min_markers)


# ---------------------------------------------------------------------------
# mapping with on-the-fly markers (cli/map_to_on_the_fly_markers.py)
# ---------------------------------------------------------------------------
# The on-the-fly mapper builds its three sub-runners with `Runner(args=[], input_data=cfg)`.  The argschema
# constructor cannot run in this sandbox (marshmallow 3: DefaultSchema.make_object() got an unexpected keyword
# 'many'), so inside the simulator -- never in /repo -- ArgSchemaParser.__init__ is replaced by a STUB that does the
# one thing the run bodies rely on: self.args = input_data completed with the defaults declared in the runner's own
# schema classes (read from the schema, not copied).  Schema validation (types, post_load cross-field checks) is NOT
# reproduced; the drivers only build configurations that are valid.  Everything from `run()` down is the real code.

_STUB = {'installed': False}


def _schema_defaults(schema_cls, data):
    import marshmallow
    out = dict(data or {})
    for name, f in schema_cls._declared_fields.items():
        if isinstance(f, marshmallow.fields.Nested):
            nested = f.nested if isinstance(f.nested, type) else type(f.nested)
            if name in out and out[name] is not None:
                out[name] = _schema_defaults(nested, out[name])
            elif getattr(f, 'required', False):
                out[name] = _schema_defaults(nested, {})
            else:
                out.setdefault(name, None)
            continue
        if name in out:
            continue
        d = getattr(f, 'default', marshmallow.missing)
        if d is marshmallow.missing:
            d = None
        out[name] = d() if callable(d) else d
    return out


def install_argschema_stub():
    if _STUB['installed']:
        return
    import argschema
    import copy
    import logging

    def _init(self, input_data=None, schema_type=None, output_schema_type=None, args=None,
              logger_name='argschema-stub'):
        schema = schema_type or self.default_schema
        self.args = _schema_defaults(schema, copy.deepcopy(input_data or {}))
        self.logger = logging.getLogger(logger_name)
    argschema.ArgSchemaParser.__init__ = _init
    _STUB['installed'] = True


def otf_config(query_path, stats_path, out_dir, tmp_dir, tag='otf', **kw):
    ta = dict(bootstrap_iteration=kw.pop('bootstrap_iteration', 5),
              bootstrap_factor=kw.pop('bootstrap_factor', 0.7),
              bootstrap_factor_lookup=kw.pop('bootstrap_factor_lookup', None),
              chunk_size=kw.pop('chunk_size', 4),
              normalization=kw.pop('normalization', 'raw'),
              rng_seed=kw.pop('rng_seed', 11),
              n_runners_up=kw.pop('n_runners_up', 2),
              min_markers=kw.pop('min_markers', 3))
    refm = dict(n_valid=kw.pop('n_valid', 10), exact_penetrance=kw.pop('exact_penetrance', False),
                precomputed_path_list=kw.pop('precomputed_path_list', None))
    for k in ('p_th', 'q1_th', 'q1_min_th', 'qdiff_th', 'qdiff_min_th', 'log2_fold_th', 'log2_fold_min_th'):
        if k in kw:
            refm[k] = kw.pop(k)
    qm = dict(n_per_utility=kw.pop('n_per_utility', 3), n_per_utility_override=None, genes_at_a_time=1)
    out_dir = str(out_dir)
    cfg = dict(query_path=str(query_path),
               extended_result_path=os.path.join(out_dir, tag + '.json'),
               hdf5_result_path=None,
               csv_result_path=os.path.join(out_dir, tag + '.csv'),
               summary_metadata_path=None, obsm_key=None, obsm_clobber=False,
               tmp_dir=str(tmp_dir) if tmp_dir is not None else None,
               extended_result_dir=None, drop_level=None, flatten=False, max_gb=1.0, cloud_safe=False,
               n_processors=kw.pop('n_processors', 3),
               precomputed_stats={'path': str(stats_path)},
               query_markers=qm, reference_markers=refm, type_assignment=ta)
    for k in list(kw):
        if k in cfg:
            cfg[k] = kw.pop(k)
    if kw:
        raise KeyError('unknown on-the-fly config keys %r' % (list(kw),))
    return cfg


def run_otf(cfg):
    ensure_repo_on_path()
    install_argschema_stub()
    from cell_type_mapper.cli.map_to_on_the_fly_markers import OnTheFlyMapper
    r = OnTheFlyMapper(args=[], input_data=cfg)
    return r.run()
