"""
Reference models, written from the property statements and the docs.
They share no code with the repository and work on dense in-memory arrays.
"""
import json
import math

import numpy as np


# ---------------------------------------------------------------------------
# taxonomy as a parent-pointer table
# ---------------------------------------------------------------------------

class Tax(object):
    """
    hierarchy : list of level names, coarsest first
    nodes     : {level: [node, ...]}
    parent    : {(level, node): parent node at the previous level}   (absent for the top level)
    """

    def __init__(self, hierarchy, nodes, parent, name_mapper=None, hierarchy_mapper=None):
        self.hierarchy = list(hierarchy)
        self.nodes = {lv: list(nodes[lv]) for lv in hierarchy}
        self.parent = dict(parent)
        self.name_mapper = name_mapper
        self.hierarchy_mapper = hierarchy_mapper

    @property
    def leaf_level(self):
        return self.hierarchy[-1]

    @property
    def leaves(self):
        return list(self.nodes[self.leaf_level])

    def level_index(self, level):
        return self.hierarchy.index(level)

    def children(self, level, node):
        """children of (level,node); level None = root"""
        if level is None:
            return list(self.nodes[self.hierarchy[0]])
        i = self.level_index(level)
        if i + 1 >= len(self.hierarchy):
            return []
        cl = self.hierarchy[i + 1]
        return [c for c in self.nodes[cl] if self.parent[(cl, c)] == node]

    def child_level(self, level):
        if level is None:
            return self.hierarchy[0]
        i = self.level_index(level)
        return self.hierarchy[i + 1]

    def ancestor(self, level, node, target_level):
        """ancestor of (level,node) at the coarser target_level"""
        i = self.level_index(level)
        j = self.level_index(target_level)
        assert j <= i
        cur = node
        for q in range(i, j, -1):
            cur = self.parent[(self.hierarchy[q], cur)]
        return cur

    def lineage(self, leaf):
        """{level: node} for a leaf"""
        return {lv: self.ancestor(self.leaf_level, leaf, lv) for lv in self.hierarchy}

    def leaves_under(self, level, node):
        if level is None:
            return sorted(self.leaves)
        return sorted(lf for lf in self.leaves
                      if self.ancestor(self.leaf_level, lf, level) == node)

    def all_parents(self):
        """[None, (level,node), ...] for every non-leaf node"""
        out = [None]
        for lv in self.hierarchy[:-1]:
            for n in self.nodes[lv]:
                out.append((lv, n))
        return out

    def ancestors_nearest_first(self, level, node):
        """[(level,node)] of proper ancestors, nearest first (root excluded)"""
        out = []
        i = self.level_index(level)
        cur = node
        for q in range(i, 0, -1):
            cur = self.parent[(self.hierarchy[q], cur)]
            out.append((self.hierarchy[q - 1], cur))
        return out

    def drop_level(self, level):
        """the taxonomy that never had `level` (not the leaf level)"""
        assert level in self.hierarchy and level != self.leaf_level
        i = self.level_index(level)
        hier = [lv for lv in self.hierarchy if lv != level]
        nodes = {lv: list(self.nodes[lv]) for lv in hier}
        parent = {}
        for (lv, n), p in self.parent.items():
            if lv == level:
                continue
            li = self.level_index(lv)
            if li == i + 1:
                if i == 0:
                    continue       # new top level: no parent
                parent[(lv, n)] = self.parent[(level, p)]
            else:
                parent[(lv, n)] = p
        return Tax(hier, nodes, parent, self.name_mapper, self.hierarchy_mapper)

    def truncate(self, new_hierarchy):
        """the taxonomy restricted to a sub-sequence of its levels (the leaf level may go as well: its parents
        become the leaves)"""
        t = self
        while t.leaf_level not in new_hierarchy:
            lf = t.leaf_level
            hier = t.hierarchy[:-1]
            t = Tax(hier, {lv: list(t.nodes[lv]) for lv in hier},
                    {k: v for k, v in t.parent.items() if k[0] != lf}, t.name_mapper, t.hierarchy_mapper)
        for lv in list(t.hierarchy):
            if lv not in new_hierarchy:
                t = t.drop_level(lv)
        return t

    def flatten(self):
        lv = self.leaf_level
        return Tax([lv], {lv: list(self.nodes[lv])}, {}, self.name_mapper, self.hierarchy_mapper)

    def to_dict(self, leaf_cells=None, metadata=None):
        """the on-disk dict format of the repository's taxonomy"""
        d = {'hierarchy': list(self.hierarchy)}
        for i, lv in enumerate(self.hierarchy):
            if i + 1 < len(self.hierarchy):
                d[lv] = {n: list(self.children(lv, n)) for n in self.nodes[lv]}
            else:
                d[lv] = {n: list((leaf_cells or {}).get(n, [])) for n in self.nodes[lv]}
        if self.name_mapper is not None:
            d['name_mapper'] = self.name_mapper
        if self.hierarchy_mapper is not None:
            d['hierarchy_mapper'] = self.hierarchy_mapper
        if metadata is not None:
            d['metadata'] = metadata
        return d

    @classmethod
    def from_dict(cls, d):
        hier = list(d['hierarchy'])
        nodes = {lv: list(d[lv].keys()) for lv in hier}
        parent = {}
        for a, b in zip(hier[:-1], hier[1:]):
            for n, ch in d[a].items():
                for c in ch:
                    parent[(b, c)] = n
        return cls(hier, nodes, parent, d.get('name_mapper'), d.get('hierarchy_mapper'))

    def label_to_name(self, level, label, key='name'):
        nm = self.name_mapper or {}
        return nm.get(level, {}).get(label, {}).get(key, label)

    def level_to_name(self, level):
        hm = self.hierarchy_mapper or {}
        return hm.get(level, level)


# ---------------------------------------------------------------------------
# numerics
# ---------------------------------------------------------------------------

def log2cpm(raw):
    """log2(CPM+1) of a dense cells x genes array of raw counts (rows that sum to 0 stay 0)"""
    raw = np.asarray(raw, dtype=float)
    tot = raw.sum(axis=1)
    tot = np.where(tot > 0.0, tot, 1.0)
    cpm = raw / tot[:, None] * 1.0e6
    return np.log2(cpm + 1.0)


def cluster_stats(l2, labels, leaves):
    """
    direct per-cluster statistics of a log2(CPM+1) matrix.
    labels[i] is the leaf of cell i or None.  Returns dict of arrays ordered like `leaves`.
    """
    n_g = l2.shape[1]
    out = {'n_cells': np.zeros(len(leaves), dtype=int),
           'sum': np.zeros((len(leaves), n_g)),
           'sumsq': np.zeros((len(leaves), n_g)),
           'gt0': np.zeros((len(leaves), n_g), dtype=int),
           'gt1': np.zeros((len(leaves), n_g), dtype=int),
           'ge1': np.zeros((len(leaves), n_g), dtype=int)}
    idx = {lf: i for i, lf in enumerate(leaves)}
    for r, lab in enumerate(labels):
        if lab is None or lab not in idx:
            continue
        i = idx[lab]
        row = l2[r]
        out['n_cells'][i] += 1
        out['sum'][i] += row
        out['sumsq'][i] += row * row
        out['gt0'][i] += (row > 0.0)
        out['gt1'][i] += (row > 1.0)
        out['ge1'][i] += (row > 1.0 - 1.0e-6)
    return out


def pearson_rows(q, ref):
    """
    correlation of every row of q with every row of ref over the columns.
    A constant row has correlation 0 with everything ("constant row => 0").
    returns (n_q, n_ref)
    """
    q = np.asarray(q, dtype=float)
    ref = np.asarray(ref, dtype=float)

    def norm(a):
        a = a - a.mean(axis=1, keepdims=True)
        n = np.sqrt((a * a).sum(axis=1, keepdims=True))
        n = np.where(n > 0.0, n, 1.0)
        return a / n
    return norm(q) @ norm(ref).T


def round_half_even_int(x):
    return int(np.round(x))


def bootstrap_size(factor, n):
    """max(1, round(factor*n)) -- numpy rounding (half to even), as documented"""
    if n == 0:
        return 0
    return max(1, int(np.round(factor * n)))


# ---------------------------------------------------------------------------
# marker reconciliation (C08), written from the property text
# ---------------------------------------------------------------------------

def reconcile_markers(tax, marker_lookup, query_genes, min_markers):
    """
    Genes used at every parent of `tax` (the reduced tree of the run).
    Returns ({parent_key: set(genes)}, error_or_None).
    parent_key is 'None' or 'level/node'.
    """
    q = set(query_genes)
    used = {}
    errors = []
    n_parents = 0
    n_skipped = 0
    n_bad = 0
    for parent in tax.all_parents():
        n_parents += 1
        if parent is None:
            key = 'None'
            ch = tax.children(None, None)
        else:
            key = '%s/%s' % parent
            ch = tax.children(parent[0], parent[1])
        if len(ch) < 2:
            n_skipped += 1
            continue
        own = set(marker_lookup.get(key, []))
        if key == 'None':
            if len(own) == 0:
                errors.append('root has no markers listed')
                continue
            if len(own & q) == 0:
                errors.append('root has no usable markers')
                n_bad += 1
            used[key] = own & q
            continue
        cur = set(own)
        if len(cur & q) < min_markers:
            for anc in tax.ancestors_nearest_first(parent[0], parent[1]):
                akey = '%s/%s' % anc
                if akey not in marker_lookup:
                    continue
                cur |= set(marker_lookup[akey])
                if len(cur & q) >= min_markers:
                    break
            if len(cur & q) < min_markers and 'None' in marker_lookup:
                cur |= set(marker_lookup['None'])
        used[key] = cur & q
        if len(used[key]) == 0:
            errors.append('%s has no usable markers' % key)
            n_bad += 1
    return used, (errors or None)


# ---------------------------------------------------------------------------
# Welch / Holm (C11)
# ---------------------------------------------------------------------------

def holm(p):
    """naive Holm step-down adjusted p-values, O(n^2)-ish on purpose"""
    p = np.asarray(p, dtype=float)
    m = len(p)
    order = np.argsort(p, kind='stable')
    adj = np.zeros(m)
    running = 0.0
    for rank, idx in enumerate(order):
        val = (m - rank) * p[idx]
        running = max(running, val)
        adj[idx] = running
    return adj


def canonical_json(obj):
    return json.dumps(obj, sort_keys=True, separators=(',', ':'))


def isclose(a, b, tol=1e-9):
    if a is None or b is None:
        return a is b
    return math.isclose(a, b, rel_tol=tol, abs_tol=tol)
