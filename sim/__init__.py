"""Deterministic simulation kernel and helpers for cell_type_mapper (see /verif/DESIGN.md)."""
