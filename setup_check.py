#!/venv/bin/python
"""
MANIFEST.setup_cmd: verifies the environment the checks need (offline; builds nothing --
the checks put /repo/src first on sys.path so they always run the working tree).
"""
import os
import sys

VERIF = os.path.dirname(os.path.abspath(__file__))


def main():
    src = os.environ.get('VERIF_REPO_SRC', '/repo/src')
    sys.path.insert(0, src)
    import numpy, scipy, h5py, anndata, pandas  # noqa
    import cell_type_mapper
    got = os.path.realpath(os.path.dirname(os.path.dirname(cell_type_mapper.__file__)))
    if got != os.path.realpath(src):
        print('cell_type_mapper imports from %s, expected %s' % (got, src))
        return 1
    for d in ('evidence', 'replays'):
        os.makedirs(os.path.join(VERIF, d), exist_ok=True)
    import multiprocessing
    if multiprocessing.get_start_method() != 'fork':
        print('start method is not fork')
        return 1
    print('setup ok: cell_type_mapper %s from %s; numpy %s h5py %s anndata %s'
          % (cell_type_mapper.__version__, got, numpy.__version__, h5py.__version__,
             anndata.__version__))
    return 0


if __name__ == '__main__':
    sys.exit(main())
