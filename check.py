#!/venv/bin/python
"""
Entry point of every registered check.

  check.py <ID> --tier quick|thorough        run the check (exit 0 / 1 + VIOLATION line / 2 harness error)
  check.py <ID> --replay <file>              re-execute a replay file in a fresh interpreter
  (internal) --shard i/N --out f --budget s --quota n ;  --minimise in out
"""
import argparse
import os
import sys

VERIF = os.path.dirname(os.path.abspath(__file__))
if VERIF not in sys.path:
    sys.path.insert(0, VERIF)


def main():
    ap = argparse.ArgumentParser()
    ap.add_argument('pid')
    ap.add_argument('--tier', default=os.environ.get('VERIF_TIER') or 'quick',
                    choices=['quick', 'thorough'])
    ap.add_argument('--replay')
    ap.add_argument('--shard')
    ap.add_argument('--out')
    ap.add_argument('--budget', type=float, default=100.0)
    ap.add_argument('--quota', type=int, default=0)
    ap.add_argument('--minimise', nargs=2)
    ap.add_argument('--run-scn', nargs=2)
    a = ap.parse_args()
    from sim import orchestrate as o
    pid = a.pid.upper()
    if a.shard:
        i, n = a.shard.split('/')
        return o.shard_main(pid, a.tier, int(i), int(n), a.out, a.budget, a.quota,
                            int(os.environ.get('VERIF_SEED', '0') or 0))
    if a.replay:
        return o.replay_main(pid, a.replay)
    if a.run_scn:
        return o.run_scn_main(pid, a.run_scn[0], a.run_scn[1])
    if a.minimise:
        return o.minimise_main(pid, a.minimise[0], a.minimise[1])
    return o.check_main(pid, a.tier)


if __name__ == '__main__':
    sys.exit(main())
