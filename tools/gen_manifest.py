#!/venv/bin/python
"""Regenerates /verif/MANIFEST.json from the table below (keeps it schema-valid at all times)."""
import json
import os
import sys

VERIF = os.path.dirname(os.path.dirname(os.path.abspath(__file__)))
PY = '/venv/bin/python'

TECH = 'deterministic simulation with fault injection'

# id -> (category, text, note, technique, design_ref)
CHECKS = {
    'C01': ('exploration',
            'Invariants (record count, cell order and ids, every level present, node-of-level, root-to-leaf path by the '
            'generator\'s own parent table, directly_assigned flags, no error for valid input) over simulated mapping '
            'runs in which chunk size, worker count, result transport, completion order, pre-emption, temp names and '
            'listing order are drawn per run by the seeded kernel. Sampled worlds/configurations/schedules: evidence, not proof.',
            'the simulator decides which record reaches which cell: chunk size x worker count x completion order x result '
            'transport (files vs result dir); taxonomy / marker / query generation is input generation with an in-memory '
            'tree model. Trusted base: sim/kernel.py, sim/model.py (parent table).',
            TECH + ': seeded schedules over chunked worker pools, invariant oracle on outputs', '5 C01'),
    'C02': ('exploration',
            'Refinement of a recorded history: wrappers at the randomness seam inside every simulated worker record chunk '
            'cell ids, node gene lists, the matrices handed to the vote tally and every drawn subset; the oracle recomputes '
            'votes, winner, share, mean winning correlation and runners-up from the INPUT files by gene name and the '
            'recorded subsets (1e-9 ambiguity margin), never replaying the random stream.',
            'the bootstrap draws are recorded at the randomness seam inside each simulated worker; the check is a refinement '
            'of the recorded history against a reference model. Trusted base: recording wrappers (props/mapfam.py), '
            'sim/model.py numerics.',
            TECH + ': recorded randomness history checked against an executable reference model', '5 C02'),
    'C03': ('exploration',
            'Arithmetic invariants of the confidence fields evaluated on every record of every simulated mapping run '
            '(iteration count 1, zero runners-up, more runners-up than siblings, single-child parents, inferred levels).',
            'piggy-back: nothing beyond run diversity comes from the simulator: the invariant is evaluated on every record of '
            'every simulated mapping run. The correlation of a single-child root (no real choice anywhere above) is accepted '
            'for any value in [-1,1].',
            TECH + ': invariant monitor over simulated runs', '5 C03'),
    'C04': ('exploration',
            'Seeded search over schedules: each scenario (stage x generated world x configuration incl. seed) is '
            'executed under several independently drawn simulated kernels (parked-fork scheduler deciding every '
            'worker release, pre-emption point and exit visibility; seeded temp names, listing order, clock) and, '
            'across shards, under two PYTHONHASHSEEDs; one canonical digest per scenario, plus a write-set isolation '
            'monitor and a bounded-liveness rule. Stages: mapping (file and manager transport), statistics, reference '
            'markers, p-value mask, markers from the mask, query markers, parallel transposition, and the on-the-fly-marker '
            'mapper (three pools in one run; argschema constructor stubbed). Evidence, not proof: schedules and worlds are sampled.',
            'everything is decided by the simulator: same scenario under many seeded schedules, name streams, listing '
            'orders, clocks and hash seeds must give one digest per stage. Trusted base: the kernel (sim/kernel.py), '
            'the reduction argument that interleavings finer than one I/O seam event are equivalent while worker write '
            'sets are disjoint (monitored), exclusion of volatile metadata/log/config from digests.',
            TECH + ': seeded schedule search over forked workers parked on pipes, differential digests', '5 C04'),
    'C06': ('exploration',
            'Pairs of simulated mapping runs at bootstrap factor 1 (base query vs permuted / sub-set / extended / duplicated '
            'rows) with chunk size, worker count, transport, encoding and schedule drawn independently per side; results '
            'joined on cell id; ambiguous cells (margin < 1e-9) excluded and counted.',
            'chunk size, worker count and schedule differ between the two sides of every pair; row permutation / subset '
            'generation is input generation.',
            TECH + ': metamorphic pairs executed under independent seeded schedules', '5 C06'),
    'C07': ('exploration',
            'Pairs of simulated mapping runs related by declared normalisation, per-cell scale, gene-column permutation, '
            'extra genes, or a planted negative raw value (must raise, no results). Bitwise relations only where arithmetic '
            'is order independent.',
            'weak fit: the two sides of each pair run under independently drawn chunking and schedules; the relations '
            'themselves are metamorphic input generation and would hold or fail identically under the OS scheduler.',
            TECH + ': metamorphic pairs executed under independent seeded schedules (weak fit)', '5 C07'),
    'C08': ('exploration',
            'Same recorded history as C02 (gene list every worker saw at every node) plus the marker table of the output, '
            'compared with a reconciliation model written from the property text; planted error clauses must end the run '
            'with an error and no results.',
            'decided on the recorded history of node gene lists seen by the simulated workers plus error-path runs; '
            'reconciliation model from the property text (sim/model.py:reconcile_markers). min_markers >= 1.',
            TECH + ': recorded history checked against an executable reference model', '5 C08'),
    'C14': ('fault_enumeration',
            'For each sampled (world, pooled stage) the grid worker x {SIGKILL, exit non-zero, raise} x {before, mid at the '
            'k-th I/O seam event, after} is enumerated COMPLETELY, each cell under a freshly drawn random schedule; oracle: '
            'the call raises, a failed mapping writes no results/CSV/success message but writes its log, other stages leave '
            'nothing their real consumer accepts; the on-the-fly-marker mapper (every worker of its three pools) is judged as '
            'a mapping run. Complete per world, sampled over worlds and schedules.',
            'everything is decided by the simulator: stage x worker x failure mode x crash point, under random schedules. '
            'Real SIGKILL / os._exit / exception in genuinely forked workers. Mid-way points are I/O seam events, not '
            'arbitrary instructions.',
            TECH + ': exhaustive per-world fault grid over forked workers, seeded schedules', '5 C14'),
    'C15': ('exploration',
            'On every successful simulated mapping run: CSV parsed with the csv module and compared with the JSON through '
            'the generator\'s name tables; HDF5 read back and compared field by field; embedded taxonomy and marker table '
            'compared with the input / the reconciliation model.',
            'weak fit: evaluated on the three files of every simulated mapping run, including level-dropped/flattened runs; '
            'the cross-format comparison is the oracle, the simulator contributes run diversity.',
            TECH + ': cross-format oracle over simulated runs (weak fit)', '5 C15'),
    'C17': ('exploration',
            'Pairs with a common seed, the same chunks and independent schedules: drop_level=L vs a statistics file written '
            'directly with a taxonomy that never had L; flatten vs a one-level taxonomy with the union marker list; unknown '
            'level vs no drop. Bitwise comparison of all shared levels, ancestor check for the removed ones.',
            'weak fit: both sides of each pair run under independent schedules and chunk-preserving worker counts with a '
            'common seed; the pairing itself is the oracle.',
            TECH + ': differential pairs executed under independent seeded schedules (weak fit)', '5 C17'),
    'C19': ('exploration',
            'Seeded search over histories of up to 6 stage runs (incl. mapping with on-the-fly markers) sharing scratch and output directories, with injected worker '
            'deaths, full disk, parent I/O errors, stale files planted under every name pattern the stages use, a complete '
            'run nested at a yield point of another (concurrent runs), clock freezes/jumps. After every operation: inputs '
            'byte-identical, scratch listing unchanged, new files only at requested outputs, result equal to a clean-room '
            'run of the same operation.',
            'everything is decided by the simulator: histories of stage runs sharing directories, stale files, failures, '
            'nested concurrent runs, clock plans; clean-room reference run of the same op. Concurrent runs finer than one '
            'nested complete run are not simulated.',
            TECH + ': seeded histories with fault injection, footprint and clean-room differential oracles', '5 C19'),
    'C20': ('exploration',
            'Fault injection reaches the message space: random directory layouts with punctuation-laden names x {success, '
            'worker death, full disk, parent I/O error, 20 classes of invalid input} x {mapping, mapping with on-the-fly markers} with cloud_safe=True; config and log of '
            'the JSON output, config and log of the HDF5 metadata and the log file are scanned for absolute paths that '
            'exist on the host, by an extractor independent of the repository\'s is_exposed.',
            'failing runs are produced by injected faults (worker death, disk full, parent I/O error, corrupt inputs) and by '
            'schedules; directory layouts are the swarm dimension; the scan for absolute paths is a plain oracle. Only '
            'config and log are scanned (not the taxonomy_tree entry); URLs are not paths.',
            TECH + ': fault injection to reach error messages, path-exposure scan', '5 C20'),
    'C05': ('exploration',
            'Knob randomisation behind the I/O seam (requested row chunk, memory budget of the CSC->CSR conversion down to '
            'the enforced minimum, HDF5 chunk layout, dtype, X or layer, keep_open, scratch or system temp) plus disk-full '
            'and parent I/O faults during the conversion; full iteration, get_chunk and get_batch compared with the '
            'generator\'s dense matrix; and the same world in three encodings pushed through the real mapping / statistics '
            'stage under independent seeded schedules.',
            'tuning knobs behind the I/O seam (row chunk, max_gb budget, HDF5 chunk layout) are randomised per run; '
            'encoding-differential runs go through simulated stages; matrix generation is input generation with an '
            'in-memory matrix model. get_batch judged on distinct rows only.',
            TECH + ': knob randomisation and I/O fault injection at the file seam, differential stage runs', '5 C05'),
    'C13': ('exploration',
            'Serial transposer (value array or not, every kind of minor-axis sub-range, budgets down to the enforced '
            'minimum), parallel transposer and CSR->CSC pivot under the simulated kernel (1-6 workers, seeded schedules), '
            'and the file-level operations (CSC->CSR, row shuffle, column subset, stacking selections from several files, '
            'layer -> X, HDF5 copy) compared with scipy; the thorough tier sweeps all 65536 4x4 patterns through the serial '
            'transposer.',
            'serial vs parallel workers, budgets, sub-ranges, schedule; worker death is covered by C14. scipy model of each '
            'file operation. The 4x4 sweep is reported as such and is not what the claim rests on.',
            TECH + ': seeded schedules over the transposition pool, knob randomisation, scipy reference model', '5 C13'),
    'C18': ('exploration',
            'Full four-stage pipeline per generated world (statistics, reference markers, query markers, mapping), each pool '
            'under its own seeded random schedule, chained through files; the query holds every leaf centroid read from the '
            'statistics file, declared normalised, columns permuted; the bootstrap draws are recorded and the property\'s '
            'own precondition is evaluated on them before a centroid is judged. In 30% of the pipelines the truncation stage '
            'runs between statistics and markers; in 30% the same composition is run again through the on-the-fly-marker '
            'entry point and must give identical markers and results.',
            'all four stages, each with its pool under a random schedule, chained through files; separable-cluster '
            'generation is input generation; the precondition check runs on the recorded draws.',
            TECH + ': end-to-end pipeline under seeded schedules with recorded randomness', '5 C18'),
    'C09': ('exploration',
            'The real statistics stage under the simulated kernel with reference cells spread over 1-3 files, three '
            'encodings, rows_at_a_time 1..40, 1-6 workers, seeded schedules, raw or pre-normalised input, unlabelled cells, '
            'one-cell clusters, planted exact CPM=1 entries; compared with a direct computation (threshold counts by exact '
            'integer arithmetic) through the file\'s own tables; two partitions must agree; truncation and merging compared '
            'with the model.',
            'how cells are spread over files, chunks, workers, encodings and completion orders is decided by the simulator; '
            'direct statistics model. Counts exact, sums to 1e-10 relative.',
            TECH + ': seeded schedules and partitions of the statistics pool, direct-computation reference model', '5 C09'),
    'C11': ('exploration',
            'Statistics files written directly (cluster sizes from 1, zero-variance genes, identical clusters) through the '
            'real reference-marker stage (exact/approximate penetrance, gene list or none) and the p-value-mask route, each '
            'under two executions differing in worker count, memory budget and schedule; every (pair, gene) entry judged by an '
            'independent Welch/Holm/penetrance model; transposes, both-direction exclusion and the rename relation checked.',
            'worker count, memory budget, schedule (both routes) and the transposition pool are decided by the simulator; '
            'independent Welch/Holm/penetrance oracle (scipy.stats.ttest_ind_from_stats + naive Holm). Entries within 1e-7 of '
            'a threshold or with an undefined statistic are undecided (skipped, counted).',
            TECH + ': seeded schedules over the marker pools, independent statistical reference model', '5 C11'),
    'C12': ('exploration',
            'Reference-marker tables (synthetic or from the real stage) through the real query-marker selection with query '
            'gene subsets, targets and per-parent overrides, under two executions differing in worker count, large-parent '
            'threshold and schedule (pool and manager dict); coverage census computed directly from the file\'s pair-major '
            'arrays and the generator\'s tree.',
            'worker count, large-parent threshold, schedule and manager-dict completion order are decided by the simulator; '
            'coverage census from the marker file. genes_at_a_time fixed at 1.',
            TECH + ': seeded schedules over the selection pool and manager, census oracle', '5 C12'),
    'C16': ('fault_enumeration',
            'validate_h5ad on generated files, run once cleanly (judged against a rounding / renaming model) and once per '
            'parent-side write event with an I/O error injected at exactly that event: k is ENUMERATED over all write events '
            'of the run (HDF5 opens for writing, dataset creations and writes, temp-file creations). Input byte-identical and '
            'scratch empty at every failure point and on success. Complete per file; files are sampled.',
            'parent-side I/O fault at the k-th file event: input must stay byte-identical at every failure point; scratch '
            'life cycle; rounding / renaming model. Write events are seam events (not arbitrary instructions).',
            TECH + ': exhaustive per-file I/O fault grid at the file seam, reference model of the rewrite', '5 C16'),
}

NOT_BUILT_REASON = 'check not built yet (work in progress; see DESIGN.md section 5 for the planned design)'
NA = {
    'C10': 'pure in-memory tree algebra: no process, file, clock, random draw or fault is involved, and the property '
           'asks for bounded exhaustive enumeration of tree shapes (model checking, not this technique); see DESIGN.md section 6',
}


def main():
    props = [json.loads(l)['id'] for l in open(os.path.join(VERIF, 'properties.jsonl'))]
    checks = []
    for pid in props:
        if pid not in CHECKS:
            continue
        cat, text, note, tech, ref = CHECKS[pid]
        checks.append({
            'property_id': pid,
            'quick_cmd': '%s check.py %s --tier quick' % (PY, pid),
            'thorough_cmd': '%s check.py %s --tier thorough' % (PY, pid),
            'evidence_file': '/verif/evidence/%s.json' % pid,
            'replay_cmd_template': '%s check.py %s --replay {path}' % (PY, pid),
            'engine': 'ctm-sim',
            'level_claimed': {'category': cat, 'text': text, 'design_ref': 'DESIGN.md section ' + ref},
            'level_note': note,
            'technique': tech,
        })
    na = []
    for pid in props:
        if pid in CHECKS:
            continue
        na.append({'property_id': pid, 'reason': NA.get(pid, NOT_BUILT_REASON)})
    hooks_file = os.path.join(VERIF, 'tools', 'hook_commits.txt')
    commits = [l.strip() for l in open(hooks_file)] if os.path.exists(hooks_file) else []
    man = {
        'version': 1,
        'setup_cmd': '%s /verif/setup_check.py' % PY,
        'hooks': {
            'guard': 'CELL_TYPE_MAPPER_VERIF',
            'enable': 'no repository hook is needed: seams are injected from outside by rebinding module globals '
                      '(multiprocessing, time, tempfile, os, shutil, datetime, open) of every loaded cell_type_mapper '
                      'module to shims; the guard name is reserved and unused',
            'baseline_off_cmd': 'cd /repo && /venv/bin/python -m pytest -q -p no:cacheprovider --timeout=900 '
                                '--continue-on-collection-errors',
            'source_commits': commits,
            'add_only': True,
        },
        'engines': [{
            'name': 'ctm-sim',
            'path': '/verif/sim',
            'serves_properties': [c['property_id'] for c in checks],
            'kind_free_text': 'deterministic simulator: real forked worker processes parked on pipes and released one at a '
                              'time by a seeded scheduler; seeded temp names, listing order, clock, free-space probe; '
                              'worker kill/exit/raise and parent I/O faults; replay files with explicit decision lists',
        }],
        'checks': checks,
        'not_applicable': na,
        'notes': 'All checks: /venv/bin/python check.py <ID> --tier quick|thorough; exit 0 held / 1 VIOLATION / 2 harness '
                 'error. VERIF_SEED seeds every choice. Known findings: /verif/known_findings.jsonl.',
    }
    with open(os.path.join(VERIF, 'MANIFEST.json'), 'w') as f:
        json.dump(man, f, indent=1)
    try:
        import jsonschema
        jsonschema.validate(man, json.load(open('/root/.vp/MANIFEST.schema.json')))
        print('MANIFEST.json valid; %d checks, %d not_applicable' % (len(checks), len(na)))
    except ImportError:
        print('MANIFEST.json written (jsonschema not available here to validate)')


if __name__ == '__main__':
    main()
