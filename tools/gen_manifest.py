#!/venv/bin/python
"""Regenerates /verif/MANIFEST.json from the table below (keeps it schema-valid at all times)."""
import json
import os
import sys

VERIF = os.path.dirname(os.path.dirname(os.path.abspath(__file__)))
PY = '/venv/bin/python'

TECH = 'deterministic simulation with fault injection'

# id -> (category, text, note, technique, design_ref)
CHECKS = {
    'C04': ('exploration',
            'Seeded search over schedules: each scenario (stage x generated world x configuration incl. seed) is '
            'executed under several independently drawn simulated kernels (parked-fork scheduler deciding every '
            'worker release, pre-emption point and exit visibility; seeded temp names, listing order, clock) and, '
            'across shards, under two PYTHONHASHSEEDs; one canonical digest per scenario, plus a write-set isolation '
            'monitor and a bounded-liveness rule. Evidence, not proof: schedules and worlds are sampled.',
            'everything is decided by the simulator: same scenario under many seeded schedules, name streams, listing '
            'orders, clocks and hash seeds must give one digest per stage. Trusted base: the kernel (sim/kernel.py), '
            'the reduction argument that interleavings finer than one I/O seam event are equivalent while worker write '
            'sets are disjoint (monitored), exclusion of volatile metadata/log/config from digests.',
            TECH + ': seeded schedule search over forked workers parked on pipes, differential digests', '5 C04'),
}

NOT_BUILT_REASON = 'check not built yet (work in progress; see DESIGN.md section 5 for the planned design)'
NA = {
    'C10': 'pure in-memory tree algebra: no process, file, clock, random draw or fault is involved, and the property '
           'asks for bounded exhaustive enumeration of tree shapes (model checking, not this technique); see DESIGN.md section 6',
}


def main():
    props = [json.loads(l)['id'] for l in open(os.path.join(VERIF, 'properties.jsonl'))]
    checks = []
    for pid in props:
        if pid not in CHECKS:
            continue
        cat, text, note, tech, ref = CHECKS[pid]
        checks.append({
            'property_id': pid,
            'quick_cmd': '%s check.py %s --tier quick' % (PY, pid),
            'thorough_cmd': '%s check.py %s --tier thorough' % (PY, pid),
            'evidence_file': '/verif/evidence/%s.json' % pid,
            'replay_cmd_template': '%s check.py %s --replay {path}' % (PY, pid),
            'engine': 'ctm-sim',
            'level_claimed': {'category': cat, 'text': text, 'design_ref': 'DESIGN.md section ' + ref},
            'level_note': note,
            'technique': tech,
        })
    na = []
    for pid in props:
        if pid in CHECKS:
            continue
        na.append({'property_id': pid, 'reason': NA.get(pid, NOT_BUILT_REASON)})
    hooks_file = os.path.join(VERIF, 'tools', 'hook_commits.txt')
    commits = [l.strip() for l in open(hooks_file)] if os.path.exists(hooks_file) else []
    man = {
        'version': 1,
        'setup_cmd': '%s /verif/setup_check.py' % PY,
        'hooks': {
            'guard': 'CELL_TYPE_MAPPER_VERIF',
            'enable': 'no repository hook is needed: seams are injected from outside by rebinding module globals '
                      '(multiprocessing, time, tempfile, os, shutil, datetime, open) of every loaded cell_type_mapper '
                      'module to shims; the guard name is reserved and unused',
            'baseline_off_cmd': 'cd /repo && /venv/bin/python -m pytest -q -p no:cacheprovider --timeout=900 '
                                '--continue-on-collection-errors',
            'source_commits': commits,
            'add_only': True,
        },
        'engines': [{
            'name': 'ctm-sim',
            'path': '/verif/sim',
            'serves_properties': [c['property_id'] for c in checks],
            'kind_free_text': 'deterministic simulator: real forked worker processes parked on pipes and released one at a '
                              'time by a seeded scheduler; seeded temp names, listing order, clock, free-space probe; '
                              'worker kill/exit/raise and parent I/O faults; replay files with explicit decision lists',
        }],
        'checks': checks,
        'not_applicable': na,
        'notes': 'All checks: /venv/bin/python check.py <ID> --tier quick|thorough; exit 0 held / 1 VIOLATION / 2 harness '
                 'error. VERIF_SEED seeds every choice. Known findings: /verif/known_findings.jsonl.',
    }
    with open(os.path.join(VERIF, 'MANIFEST.json'), 'w') as f:
        json.dump(man, f, indent=1)
    try:
        import jsonschema
        jsonschema.validate(man, json.load(open('/root/.vp/MANIFEST.schema.json')))
        print('MANIFEST.json valid; %d checks, %d not_applicable' % (len(checks), len(na)))
    except ImportError:
        print('MANIFEST.json written (jsonschema not available here to validate)')


if __name__ == '__main__':
    main()
