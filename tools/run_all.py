#!/venv/bin/python
"""Run every registered check (quick or thorough) in turn; validate each evidence file; print a table."""
import json
import os
import subprocess
import sys
import time

VERIF = os.path.dirname(os.path.dirname(os.path.abspath(__file__)))


def main():
    tier = sys.argv[1] if len(sys.argv) > 1 else 'quick'
    only = sys.argv[2:] or None
    man = json.load(open(os.path.join(VERIF, 'MANIFEST.json')))
    rows = []
    for c in man['checks']:
        pid = c['property_id']
        if only and pid not in only:
            continue
        cmd = c['quick_cmd'] if tier == 'quick' else c['thorough_cmd']
        t0 = time.time()
        p = subprocess.run(cmd, shell=True, cwd=VERIF, stdout=subprocess.PIPE, stderr=subprocess.STDOUT, text=True)
        wall = time.time() - t0
        ev_ok = 'missing'
        try:
            ev = json.load(open(c['evidence_file']))
            ev_ok = 'ok tier=%s evals=%d distinct=%d' % (ev['tier'], ev['coverage']['evaluations'],
                                                         ev['coverage']['distinct_nontrivial'])
        except Exception as e:
            ev_ok = 'bad: %r' % (e,)
        viol = [l for l in p.stdout.splitlines() if l.startswith(('VIOLATION', 'HARNESS-ERROR', 'KNOWN-FINDING'))]
        rows.append((pid, p.returncode, round(wall, 1), ev_ok, viol[:3]))
        print(pid, 'exit', p.returncode, '%.0fs' % wall, ev_ok, viol[:3], flush=True)
    bad = [r for r in rows if r[1] != 0]
    print('ALL OK' if not bad else 'NOT OK: %r' % [r[0] for r in bad])
    return 1 if bad else 0


if __name__ == '__main__':
    sys.exit(main())
