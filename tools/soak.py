#!/venv/bin/python
"""
Soak: run every quick check under several VERIF_SEEDs (never the committed evidence directory) and report
anything that is not exit 0.  A non-zero exit on the unchanged tree is either a genuine defect or a false alarm
and must be triaged (DESIGN.md section 7 / section 0).

  soak.py <out.jsonl> <seed> [<seed> ...] [--tier thorough] [--only C04,C19]
"""
import json
import os
import subprocess
import sys
import time

VERIF = os.path.dirname(os.path.dirname(os.path.abspath(__file__)))


def main():
    args = sys.argv[1:]
    out = args.pop(0)
    tier = 'quick'
    only = None
    seeds = []
    while args:
        a = args.pop(0)
        if a == '--tier':
            tier = args.pop(0)
        elif a == '--only':
            only = args.pop(0).split(',')
        else:
            seeds.append(int(a))
    man = json.load(open(os.path.join(VERIF, 'MANIFEST.json')))
    scratch = '/tmp/ctm-soak-%d' % os.getpid()
    bad = 0
    with open(out, 'a') as f:
        for seed in seeds:
            for c in man['checks']:
                pid = c['property_id']
                if only and pid not in only:
                    continue
                env = dict(os.environ, VERIF_SEED=str(seed), VERIF_EVIDENCE_DIR=os.path.join(scratch, 'evidence'),
                           VERIF_REPLAY_DIR=os.path.join(scratch, 'replays', str(seed)),
                           VERIF_SCRATCH=os.path.join(scratch, 'run'))
                t0 = time.time()
                p = subprocess.run(['/venv/bin/python', os.path.join(VERIF, 'check.py'), pid, '--tier', tier], env=env,
                                   stdout=subprocess.PIPE, stderr=subprocess.STDOUT, text=True, cwd=VERIF)
                lines = [l[:500] for l in p.stdout.splitlines()
                         if l.startswith(('violation class', 'VIOLATION', 'HARNESS', 'KNOWN'))]
                head = [l for l in p.stdout.splitlines() if l.startswith(pid + ':')]
                rec = {'seed': seed, 'id': pid, 'tier': tier, 'exit': p.returncode, 'wall': round(time.time() - t0, 1),
                       'summary': head[:1], 'lines': lines[:8]}
                if p.returncode != 0:
                    bad += 1
                f.write(json.dumps(rec) + '\n')
                f.flush()
    print('soak done: %d non-zero exits' % bad)
    return 1 if bad else 0


if __name__ == '__main__':
    sys.exit(main())
