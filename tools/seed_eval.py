#!/venv/bin/python
"""
Evaluate a seeded change (/verif/seeded/<id>/patch.diff + demo) against the checks.

  seed_eval.py verify <seed_dir>            apply the patch in a scratch worktree of /repo (outside /repo and /verif),
                                            run the demonstration with and without it, run the 479-test baseline
  seed_eval.py check  <seed_dir> C01 C04 …  run the given quick checks against the patched scratch worktree
                                            (VERIF_REPO_SRC), evidence and replays redirected to the scratch dir
The scratch worktree is removed afterwards.
"""
import glob
import json
import os
import shutil
import subprocess
import sys
import time

VERIF = os.path.dirname(os.path.dirname(os.path.abspath(__file__)))
PY = '/venv/bin/python'


def make_worktree(seed_dir, apply_patch=True):
    wt = '/tmp/ctm-seedcheck-%d-%s' % (os.getpid(), os.path.basename(os.path.abspath(seed_dir)))
    subprocess.call(['git', '-C', '/repo', 'worktree', 'remove', '--force', wt], stdout=subprocess.DEVNULL,
                    stderr=subprocess.DEVNULL)
    shutil.rmtree(wt, ignore_errors=True)
    subprocess.check_call(['git', '-C', '/repo', 'worktree', 'add', '-q', '--detach', wt, 'HEAD'])
    if apply_patch:
        subprocess.check_call(['git', '-C', wt, 'apply', os.path.join(os.path.abspath(seed_dir), 'patch.diff')])
    return wt


def drop_worktree(wt):
    subprocess.call(['git', '-C', '/repo', 'worktree', 'remove', '--force', wt], stdout=subprocess.DEVNULL,
                    stderr=subprocess.DEVNULL)
    shutil.rmtree(wt, ignore_errors=True)


def demo_cmd(seed_dir):
    for name in ('demo.py', 'test_demo.py'):
        p = os.path.join(os.path.abspath(seed_dir), name)
        if os.path.exists(p):
            return p
    return None


def run_demo(seed_dir, wt):
    demo = demo_cmd(seed_dir)
    env = dict(os.environ, PYTHONPATH=os.path.join(wt, 'src'))
    if os.path.basename(demo).startswith('test_'):
        cmd = [PY, '-m', 'pytest', '-q', '-p', 'no:cacheprovider', demo]
    else:
        cmd = [PY, demo]
    p = subprocess.run(cmd, env=env, stdout=subprocess.PIPE, stderr=subprocess.STDOUT, text=True, timeout=1800,
                       cwd='/tmp')
    return p.returncode, p.stdout[-600:]


def verify(seed_dir):
    out = {}
    wt = make_worktree(seed_dir, apply_patch=True)
    try:
        rc, tail = run_demo(seed_dir, wt)
        out['demo_with_patch'] = {'exit': rc, 'tail': tail[-300:]}
        p = subprocess.run([PY, '/tmp/seed/check_baseline.py', wt] if os.path.exists('/tmp/seed/check_baseline.py')
                           else [PY, os.path.join(VERIF, 'tools', 'check_baseline_wt.py'), wt],
                           stdout=subprocess.PIPE, stderr=subprocess.STDOUT, text=True)
        out['baseline_with_patch'] = p.stdout.strip().splitlines()[:3]
        subprocess.check_call(['git', '-C', wt, 'checkout', '--', '.'])
        rc2, tail2 = run_demo(seed_dir, wt)
        out['demo_without_patch'] = {'exit': rc2, 'tail': tail2[-200:]}
        out['confirmed'] = bool(rc != 0 and rc2 == 0 and 'no longer passing: 0' in p.stdout)
    finally:
        drop_worktree(wt)
    print(json.dumps(out, indent=1))
    return 0 if out.get('confirmed') else 1


def check(seed_dir, props, tier='quick'):
    wt = make_worktree(seed_dir, apply_patch=True)
    res = {}
    try:
        for pid in props:
            scratch = wt + '.run'
            env = dict(os.environ, VERIF_REPO_SRC=os.path.join(wt, 'src'), VERIF_SCRATCH=os.path.join(scratch, 'run'),
                       VERIF_EVIDENCE_DIR=os.path.join(scratch, 'evidence'),
                       VERIF_REPLAY_DIR=os.path.join(scratch, 'replays'))
            t0 = time.time()
            p = subprocess.run([PY, os.path.join(VERIF, 'check.py'), pid, '--tier', tier], env=env,
                               stdout=subprocess.PIPE, stderr=subprocess.STDOUT, text=True)
            lines = [l[:400] for l in p.stdout.splitlines() if l.startswith(('violation class', 'VIOLATION', 'HARNESS'))]
            res[pid] = {'exit': p.returncode, 'wall': round(time.time() - t0, 1),
                        'status': 'CAUGHT' if p.returncode == 1 else ('HARNESS-ERROR' if p.returncode == 2 else 'missed'),
                        'lines': lines[:6]}
            # keep one minimised replay as documentation
            for rp in glob.glob(os.path.join(scratch, 'replays', '*.json'))[:1]:
                shutil.copy(rp, os.path.join(os.path.abspath(seed_dir), 'replay_%s.json' % pid))
            shutil.rmtree(scratch, ignore_errors=True)
            print(pid, json.dumps(res[pid])[:1200], flush=True)
    finally:
        drop_worktree(wt)
    return res


def full(seed_dir, props):
    """verify + check, results merged into <seed_dir>/meta.json"""
    import io
    import contextlib
    seed_dir = os.path.abspath(seed_dir)
    mp = os.path.join(seed_dir, 'meta.json')
    meta = json.load(open(mp)) if os.path.exists(mp) else {}
    buf = io.StringIO()
    with contextlib.redirect_stdout(buf):
        rc = verify(seed_dir)
    try:
        meta['verification'] = json.loads(buf.getvalue())
    except ValueError:
        meta['verification'] = {'raw': buf.getvalue()[-500:]}
    meta['verification']['commands'] = [
        'git worktree add <scratch> HEAD; git -C <scratch> apply patch.diff',
        'PYTHONPATH=<scratch>/src /venv/bin/python demo.py   (must fail with the patch, pass without)',
        'pytest baseline against <scratch>/src compared with /root/.vp/BASELINE.json stable_pass (479 tests)']
    res = check(seed_dir, props)
    meta.setdefault('checks', {}).update(res)
    meta['caught_by'] = sorted(k for k, v in meta['checks'].items() if v['status'] == 'CAUGHT')
    meta['repo_head'] = subprocess.check_output(['git', '-C', '/repo', 'rev-parse', 'HEAD']).decode().strip()
    with open(mp, 'w') as f:
        json.dump(meta, f, indent=1)
    print(os.path.basename(seed_dir), 'confirmed', meta['verification'].get('confirmed'), 'caught_by', meta['caught_by'])


if __name__ == '__main__':
    if sys.argv[1] == 'verify':
        sys.exit(verify(sys.argv[2]))
    elif sys.argv[1] == 'full':
        full(sys.argv[2], sys.argv[3:])
    elif sys.argv[1] == 'recheck':
        # re-run checks after strengthening them; the earlier outcome is kept under 'earlier_checks'
        sd = os.path.abspath(sys.argv[2])
        mp = os.path.join(sd, 'meta.json')
        meta = json.load(open(mp))
        res = check(sd, sys.argv[3:])
        for k in res:
            if k in meta.get('checks', {}) and meta['checks'][k]['status'] != res[k]['status']:
                meta.setdefault('earlier_checks', {}).setdefault(k, []).append(meta['checks'][k])
        meta.setdefault('checks', {}).update(res)
        meta['caught_by'] = sorted(k for k, v in meta['checks'].items() if v['status'] == 'CAUGHT')
        with open(mp, 'w') as f:
            json.dump(meta, f, indent=1)
    else:
        check(sys.argv[2], sys.argv[3:])
