#!/venv/bin/python
"""Rewrites the 'Sizes as built' table of DESIGN.md section 0 from props/*.py (QUOTA, BUDGET, LEVEL) and evidence/*.json."""
import importlib
import json
import os
import re
import sys

VERIF = os.path.dirname(os.path.dirname(os.path.abspath(__file__)))
sys.path.insert(0, VERIF)


def main():
    man = json.load(open(os.path.join(VERIF, 'MANIFEST.json')))
    rows = ['| id | level | scenario quota quick / thorough | soft budget | scenarios (last quick run) | evaluations | '
            'distinct non-trivial | wall s |', '|---|---|---|---|---|---|---|---|']
    for c in man['checks']:
        pid = c['property_id']
        mod = importlib.import_module('props.%s' % pid.lower())
        ev = json.load(open(os.path.join(VERIF, 'evidence', '%s.json' % pid)))
        cov = ev['coverage']
        rows.append('| %s | %s | %d / %d | %d s / %d s | %s | %d | %d | %d |' % (
            pid, mod.LEVEL, mod.QUOTA['quick'], mod.QUOTA['thorough'], mod.BUDGET['quick'], mod.BUDGET['thorough'],
            cov.get('scenarios', ''), cov['evaluations'], cov['distinct_nontrivial'], round(ev.get('wall_s', 0))))
    p = os.path.join(VERIF, 'DESIGN.md')
    s = open(p).read()
    m = re.search(r'\| id \| level \| scenario quota quick / thorough .*?\n(\|.*\n)+', s)
    s = s[:m.start()] + '\n'.join(rows) + '\n' + s[m.end():]
    open(p, 'w').write(s)
    print('table rewritten: %d rows' % (len(rows) - 2))


if __name__ == '__main__':
    main()
