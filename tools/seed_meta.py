#!/venv/bin/python
"""Fill property / needs / origin fields of seeded/*/meta.json (idempotent; run after tools/seed_eval.py full)."""
import json
import os

VERIF = os.path.dirname(os.path.dirname(os.path.abspath(__file__)))
NEEDS = {
 'C01-flat-previously-assigned': 'taxonomy re-using a node label at two levels across branches (the child label equals a different-branch node of the parent level that sorts later)',
 'C02-fastpath-full-subset': 'a node where max(1, round(factor*n)) == n (factor 1.0, or <= 4 usable markers at 0.9) together with bootstrap_iteration > 1',
 'C03-topk-unsigned-votes': 'a parent with >= 32 children that are all leaves, n_runners_up+1 <= n_children/4, and a sibling with zero votes (two cooperating sites: unsigned vote dtype + negation)',
 'C04-stats-merge-completion-order': '>= 3 statistics workers sharing a cluster, non-integer values, and a completion order differing from start order by more than a swap of the first two',
 'C04-pmask-merge-completion-order': 'p-value mask with > 1 chunk and >= 2 workers where a later-started worker is seen finished before an earlier one (two cooperating sites)',
 'C04-aggregate-votes-hash-order': 'an election at a non-leaf level with an exact tie in bootstrap votes between candidate nodes, compared across two PYTHONHASHSEEDs',
 'C05-getbatch-contiguous-fastpath': 'get_batch on a CSR/CSC file with a row list that is unsorted but gap-free once sorted',
 'C06-relative-norm-floor': 'declared log2CPM input in 32-bit floats with one cell on a scale > 2900x the others, sharing a chunk and parent node with an ordinary cell in one run but not in the other',
 'C07-cpm-guard-maximum': 'raw input with a cell whose total count lies strictly between 0 and 1 (fractional counts or a scale factor below 1/total)',
 'C08-top-down-patching': 'a parent with too few usable markers whose nearest non-trivial ancestor also has too few, while their union reaches min_markers',
 'C09-labelled-span-chunks': 'an input file whose labelled-row span is an exact multiple of rows_at_a_time (always for a file with one labelled cell or rows_at_a_time=1)',
 'C11-gene-list-dropped-in-second-pass': 'gene list given, approximate penetrance, a pair with < 10 in-list markers on the first pass and an out-of-list gene passing p-value and floors',
 'C12-desperate-local-index': 'a parent processed on the full table (large-parent threshold) having a pair with at most n_per_utility markers in the query',
 'C13-early-skip-before-slice-shift': 'minor-axis sub-range with s0 > 0 (or >= 2 workers), a memory budget at the enforced minimum, > 100 stored entries and a load chunk whose smallest raw index lies beyond the output window (short wide matrix)',
 'C14-final-drain-join': 'the failing mapping worker is one of the last n_processors-1 workers, finishes after its siblings and dies after writing its output',
 'C14-qmarkers-drain-by-result-count': 'query-marker worker that stores its result and then dies, being the last to report and still in the pool when scheduling ends',
 'C14-winnow-max-exitcode': 'a signal-killed worker (negative exit code) and a cleanly finished sibling reaped in the same poll pass, the kill happening after the worker delivered its result',
 'C15-name-cache-by-label': 'taxonomy with a name table that re-uses a label at two levels with different names',
 'C16-round-half-away-vs-dtype': 'rounding requested and a minimum of exactly -0.5 (no other negative) or exactly a signed type\'s lower bound minus one half (two cooperating sites: rounding rule vs integer-type choice)',
 'C17-flatten-skips-single-child-lists': 'flatten=True, a non-leaf node with exactly one child whose marker list names a query gene that no multi-child parent lists',
 'C18-flat-previously-assigned': 'full pipeline on a taxonomy re-using a label across levels and branches',
 'C19-cleanup-after-output': 'a mapping run in which a statement of the finally block raises before the (moved) clean-up: unreadable / truncated / missing query, hdf5_result_path in a missing directory, or an output write failure at the very end',
 'C19-sweep-foreign-result-buffers': 'two mapping runs sharing one scratch directory at the same time (run B starts while A holds a live result buffer), or a foreign result_buffer_* directory planted in scratch',
 'C19-transpose-fastpath-leaks-dir': 'query-marker selection with a scratch directory on a marker table that has no entries in one direction for some parent',
 'C20-is-exposed-parent-only': 'a cloud-safe run failing on a configured path inside a directory that does not exist (two missing trailing components)',
 'C20-bracketed-path-in-worker-error': 'cloud-safe mapping run failing through a worker failure: the new message puts the path right after "(name=" so the whitespace-splitting sanitiser does not see it',
 'C14-transpose-drain-join': 'parallel transposition: the failing worker is still in the pool when dispatch ends and a sibling finishes before it dies; crash after work (call returns normally) or mid-way after the scratch file was laid out (wrong transpose left at the output path)',
 'C14-stats-throttle-is-alive': 'reference statistics with exactly n_processors > 1 work loads: the failing worker is among the first to finish while the parent waits for a slot, and it fails after having written its buffer (two cooperating sites)',
 'C01-backfill-flat-parent-lookup': 'flatten or drop_level run on a taxonomy that re-uses a label at two levels with different parents, with a cell mapping through the shallower of the two',
 'C09-truncate-one-to-one-fastpath': 'collapsing to a coarser hierarchy that drops the leaf level when the new leaf level is one-to-one with the old one and its order differs from alphabetical cluster order',
 'C19-data-buffer-outside-workdir': 'reference statistics run with copy_data_over=True and an explicit scratch directory (library option, off by default)',
 'C19-revalidate-same-second-overwrites-input': 'validate a *_VALIDATED_<timestamp>.h5ad file again with output_dir = its own directory within the same clock second (two cooperating sites: name clean-up + "whatever is at the output path is mine")',
 'C04-transpose-skips-empty-worker-slices': 'parallel transposition with a worker count whose slice boundaries put a whole non-first slice inside a run of empty columns',
 'C04-refmarkers-merge-completion-order': 'reference markers with more chunks than workers and a later-launched worker finishing before an earlier one that is still running during submission (three cooperating edits)',
 'C02-aggregate-votes-reduceat-order': 'a node where some child has several leaves, every child\'s leaves are contiguous in sorted-leaf order, and the order of those blocks differs from the alphabetical order of the child names',
 'C05-csr-to-dense-scatter-index-dtype': 'CSC-encoded input with < 255 columns read in a single chunk of more than 256 rows (or < 65535 columns and > 65536 rows): the converted file stores indices in the smallest unsigned type',
 'C11-pmask-worker-indptr-skips': 'p-value-mask route, a leaf cluster with exactly one cell, and in the same worker chunk a scored pair before and after one of its pairs',
 'C12-per-slot-possible-mask': 'after thinning to the query genes a leaf pair with a < n markers in one direction, b > n in the other and a + b > n (n = the parent\'s effective per-direction target)',
 'C13-amalgamate-skips-empty-sources': 'amalgamation into a sparse destination where one source file contributes >= 1 rows with no stored entry while another source contributes stored entries',
 'C15-hdf5-runnerup-slab-direct-only': 'drop_level naming a level that is neither the first nor the leaf level, n_runners_up > 0 and a cell with an actual runner-up',
 'C16-clip-suffix-before-lookup': 'a known gene symbol that itself contains a "." (Tex19.1, AC149091.1) in the var index',
 'C17-drop-level-copies-dropped-markers': 'drop_level applied, a parent directly above the dropped level with exactly one child there (which has several children), and a marker table with no entry for that parent but one for the dropped child',
 'C01-skip-reorder-single-worker': 'n_processors == 1 and chunk start rows with different digit counts (e.g. chunk_size 4 with >= 13 cells): the buffer files are read back in lexicographic order and the final re-ordering was the only thing hiding it (two cooperating sites)',
 'C03-fused-backfill-leaks-parent-corr': 'a taxonomy whose top level has a single node and at least two cells in one worker chunk (state carried from one cell to the next)',
 'C06-unstable-grouping-plus-skip-copy': 'a chunk of more than 16 cells that are all assigned to the same non-leaf node with several children (two cooperating sites: unstable argsort grouping + skipped copy)',
 'C07-query-marker-index-dtype-from-reference': 'a query with more than 256 gene columns against a reference of at most 255 genes, with a marker beyond column 255',
 'C08-blank-unneeded-parents-before-patching': 'a marker table that lists genes for a single-child parent whose child has too few markers of its own in the query',
 'C09-obs-names-lru-cache-by-path': 'two statistics computations in ONE process on the same file path with different content in between (process-lifetime cache keyed by path)',
 'C18-leaf-means-inverse-permutation': 'a statistics file whose rows are not in alphabetical leaf order with a permutation containing a cycle of length >= 3 (written by the truncation stage when the leaf level is dropped)',
 'C20-is-exposed-two-levels-only': 'cloud_safe run recording a path with two or more non-existent trailing components (output in a missing directory, missing scratch directory)',
 'C04-raw-stats-cache-by-path': 'two runs of a stage in ONE process reading the statistics file at the same real path (direct library call or tmp_dir=None) with other content in between',
 'C05-shared-csr-copy-by-path': 'CSC file; an earlier iterator on the same path and layer is still referenced when the file is replaced and a new iterator is opened',
 'C14-otf-return-in-finally': 'mapping with on-the-fly markers in which a worker of the reference-marker or query-marker pool fails (before the mapping part has written its JSON)',
 'C16-placeholder-registry-across-calls': 'two validations in one process through the species-inferred mapper where the later file re-uses an unknown gene name of an earlier, successfully validated file',
 'C19-otf-query-marker-dir-outside-private-dir': 'mapping with on-the-fly markers failing in its SECOND sub-stage (query-marker selection or writing its JSON)',
 'C20-otf-schema-driven-sanitising': 'successful cloud_safe run of the on-the-fly mapper with an explicit reference_markers.precomputed_path_list',
 'C02-vote-dtype-from-subset-size': 'bootstrap_iteration >= 256 at a node with at most 255 sampled markers, and a (cell, leaf) pair collecting at least 256 votes',
 'C08-duplicates-count-towards-min-markers': 'a multi-child non-root parent whose marker list repeats genes, with distinct usable genes < min_markers <= entries counted with repeats',
 'C09-ge1-isclose-window': 'a labelled cell with a gene whose CPM lies within about 15 ppm of 1 without being exactly 1 (one count in a cell of 999 990 or 1 000 010 total counts; log2CPM input within 1.1e-5 of 1.0)',
 'C11-exact-thresholds-inclusive': 'exact penetrance and a statistic tied EXACTLY at a strict threshold (q1 = 0.5 with half of an even-sized cluster expressing, fold = 1.0, qdiff = 0.5)',
 'C12-override-dict-remembers-default': 'the caller re-uses one n_per_utility_override dict object across two selections in one process with different default targets',
 'C13-serial-transpose-window-off-by-one': 'more than 100 stored entries, a memory budget below the number of entries, and a column that starts exactly on the last stored entry of an interior load chunk',
 'C15-csv-float32-downcast': 'a confidence value that float32 and float64 round differently to four decimals: vote shares k/160 (k/800, k/1600), or hand-made values such as 0.99995',
 'C17-flatten-union-after-drop-level': 'flatten=True together with a drop_level that exists in the taxonomy, and a marker gene listed only under the dropped level',
}
HISTORY = {
 'C02-vote-dtype-from-subset-size': 'OBSERVED MISS by C02 (C03 catches it through the shared configuration generator: probability 0.0, correlation 6.3): the shared generator was widened to 32 / 160 / 256 / 300 iterations in 4% of the runs before the change was run, but C02 sets its own iteration count (1..9, because every drawn subset is recorded and re-voted) and still missed. C02 now draws 256 or 300 iterations in 4% of its runs; caught with 42 + 6 occurrences per quick run',
 'C09-ge1-isclose-window': 'PREDICTED MISS: exact CPM = 1 cells were planted, near-1 cells were not. C09 now plants cells 10-20 ppm off the cutoff on either side (raw) and values 1 +- 8e-6 (declared log2CPM); the band inside the code\'s own 1e-6 float tolerance is still not probed (ASSUMPTIONS)',
 'C12-override-dict-remembers-default': "OBSERVED MISS: every selection got a fresh override table; and the first widening -- an earlier selection with ANOTHER default target on the same dict object, result ignored -- used a larger target, which only over-covers (the property says 'at least'). The earlier call now uses a smaller target (1) whenever the judged target is above 1; the oracle works on a copy of the table taken before; caught with 37 occurrences per quick run",
 'C15-csv-float32-downcast': 'PREDICTED MISS: needs vote shares on a 4-decimal rounding boundary, i.e. iteration counts such as 160; see C02-vote-dtype-from-subset-size',
 'C17-flatten-union-after-drop-level': 'OBSERVED MISS: the shared configuration generator was widened to set flatten and drop_level together in 5% of the runs, but C17 composes its own pairs (drop | flatten | unknown level). It now has a fourth mode flatten_drop whose reference side is the flattened taxonomy with the union of ALL marker lists; caught with 19 occurrences per quick run',
 'C11-exact-thresholds-inclusive': 'NOT CAUGHT, by decision: the change turns ">" into ">=" at the strict thresholds and is visible only for a statistic tied exactly at a threshold. C11 deliberately leaves (pair, gene) entries within 1e-7 of a threshold undecided, because the property text names floors "on or above" but does not say which side an exact tie at a strict threshold falls on, and the repository\'s documentation (>=) and code (>) disagree. Demanding either would be demanding more than the property states',
 'C04-raw-stats-cache-by-path': 'OBSERVED MISS by C04 (caught by C11 as it stood, through the history replay: every scenario of a shard re-uses the input paths): C04 compared executions of one scenario with each other, and all of them saw the same stale cache. C04 now runs a HISTORY TWIN in a quarter of the scenarios -- a decoy world goes through the stage at the same input paths first, and kernel 0 reads an identical copy of the real inputs under paths the process has never seen -- so a result that depends on what was read from a path before shows up as a digest difference inside one scenario',
 'C05-shared-csr-copy-by-path': 'PREDICTED MISS: no scenario kept an iterator alive while the file was replaced. C05 now has a read - replace (atomic rename) - read step in 20% of the iterator scenarios; caught with 95 occurrences per quick run',
 'C20-otf-schema-driven-sanitising': 'PREDICTED MISS: the on-the-fly configurations never named precomputed_path_list explicitly; 40% now do',
 'C16-placeholder-registry-across-calls': 'caught as it stood, through the history replay (the violating validation needs one earlier validation in the same process; history minimised to one predecessor)',
 'C14-otf-return-in-finally': 'caught as it stood (243 grid cells) by the on-the-fly stage added to the C14 grid an hour earlier',
 'C19-otf-query-marker-dir-outside-private-dir': 'caught as it stood (8 occurrences) by the on-the-fly operation added to the C19 histories an hour earlier',
 'C03-fused-backfill-leaks-parent-corr': 'OBSERVED MISS by C03 (caught by C06 as it stood: the number depends on the neighbouring cell): for a single-child chain that starts at the top there is no real choice above, and the oracle checked nothing there. It now accepts both readings of "nearest level where a real choice was made" -- 1.0 or the same cell\'s correlation at the first real choice below -- and rejects anything else; caught with 147 occurrences per quick run',
 'C07-query-marker-index-dtype-from-reference': 'PREDICTED MISS: the extra-genes relation added 3 columns at the end. It now adds 3 / 20-60 / 257-400 (65537+ in the thorough tier) columns before, after or interleaved with the kept ones; caught with 21 occurrences per quick run',
 'C06-unstable-grouping-plus-skip-copy': 'caught as it stood (2 occurrences per quick run, thin); queries of 40 cells were added on this occasion',
 'C09-obs-names-lru-cache-by-path': 'OBSERVED MISS of a new kind: the violation appeared 600+ times in the shards (every scenario of a shard re-uses the same sandbox paths in one process) but did not reproduce from its single-scenario replay file in a fresh process, so the run ended as HARNESS-ERROR (exit 2), not as a VIOLATION. The orchestrator now confirms such a violation together with a HISTORY -- growing suffixes of the scenarios that ran before it in the same shard process, then dropped one at a time -- and writes a replay file {history: [...], scenario}; minimised here to one predecessor',
 'C18-leaf-means-inverse-permutation': 'OBSERVED MISS by C18 (caught by C02 as it stood, whose statistics files have shuffled rows): the pipeline\'s own statistics stage always writes alphabetical rows. C18 now runs the truncation stage between statistics and markers in 30% of the scenarios (any sub-sequence of the levels; dropping the leaf level re-builds the rows in first-appearance order); caught with 3 occurrences per quick run',
 'C05-csr-to-dense-scatter-index-dtype': 'OBSERVED MISS: the row-access matrices had at most 30 rows, so no read spanned the 2**8 index-width boundary of the CSC->CSR conversion. The generator now draws tall (257..520 rows; 65537+ rows in the thorough tier) and wide (257..300 columns) matrices read in one chunk; caught with 44 occurrences per quick run',
 'C16-clip-suffix-before-lookup': 'OBSERVED MISS: gene symbols were sampled from dot-free names only. The generator now has two modes that draw from the 44 known mouse symbols containing a "."; caught with 26 occurrences per quick run',
 'C15-hdf5-runnerup-slab-direct-only': 'caught as it stood (class hdf5-value); the IndexError the reader raises on some of these files surfaced as a harness error and is now its own violation class hdf5-unreadable',
 'C19-revalidate-same-second-overwrites-input': 'OBSERVED MISS: the first evaluation reported a violation, but for the wrong reason (a false alarm of the freshly added chained-validation operation, see DESIGN section 0); with that corrected the change was MISSED because two validations of one file in one history, the second one chained and in the same simulated second, were generated in about 1% of the histories. The chained re-validation is now self-contained (it first produces the product it then validates, inside one operation) and twice as frequent; caught with 29 occurrences per quick run',
 'C19-data-buffer-outside-workdir': 'predicted miss (the statistics driver never set copy_data_over); the option is now drawn in C19 statistics operations',
 'C19-cleanup-after-output': 'OBSERVED MISS by the first version of C19 (parent I/O faults only reached the first 12 write events and no invalid input was planted); C19 was strengthened (fault position drawn over ALL write events of the clean run; invalid-input failure classes for mapping) and now catches it',
 'C03-topk-unsigned-votes': 'predicted miss (generated taxonomies had at most 10 leaves); wide taxonomies (36/48 leaves) were added to the world generator before the check was run against it',
 'C06-relative-norm-floor': 'predicted miss (C06 only used raw 64-bit queries); declared-normalised queries with outlier cells and 32-bit floats were added before the check was run against it',
 'C07-cpm-guard-maximum': 'predicted miss (scale factors were within 2^-3..2^5); scale factors down to 2^-40 / 1e-9 were added before the check was run against it',
 'C13-early-skip-before-slice-shift': 'predicted miss (largest matrices were 25x14); short-wide and tall-narrow matrices with > 100 entries were added before the check was run against it',
 'C15-name-cache-by-label': 'predicted miss (generated name tables gave the same name to a label at every level); names now differ per level',
 'C16-round-half-away-vs-dtype': 'predicted miss (boundary values were positive only); negative ties at type boundaries were added',
 'C18-flat-previously-assigned': 'predicted miss for C18 (its worlds never re-used labels across levels; C01 caught it already); shared labels enabled in C18 worlds',
}
for name, needs in NEEDS.items():
    d = os.path.join(VERIF, 'seeded', name)
    if not os.path.isdir(d):
        continue
    mp = os.path.join(d, 'meta.json')
    meta = json.load(open(mp)) if os.path.exists(mp) else {}
    meta['property'] = name.split('-')[0]
    meta['needs'] = needs
    meta['history'] = HISTORY.get(name, 'caught by the check as it stood when the change arrived')
    meta['origin'] = ('written by an independent sub-agent that was given only the property text and a scratch git '
                      'worktree of /repo (see notes.md for its own account)')
    json.dump(meta, open(mp, 'w'), indent=1)
print('meta updated for', len(NEEDS))
