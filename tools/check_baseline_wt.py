#!/venv/bin/python
"""usage: check_baseline.py <worktree>  -- runs the project's test suite against <worktree>/src and compares with the pinned baseline"""
import json, os, subprocess, sys, tempfile
import xml.etree.ElementTree as ET
wt = os.path.abspath(sys.argv[1])
fd, junit = tempfile.mkstemp(suffix='.xml'); os.close(fd)
env = dict(os.environ, PYTHONPATH=os.path.join(wt, 'src'))
subprocess.call(['/venv/bin/python', '-m', 'pytest', '-q', '-p', 'no:cacheprovider', '--timeout=900',
                 '--continue-on-collection-errors', '--junitxml=' + junit, '-n', '4'],
                cwd=wt, env=env, stdout=subprocess.DEVNULL, stderr=subprocess.DEVNULL)
want = set(json.load(open('/root/.vp/BASELINE.json'))['stable_pass'])
got = set()
for tc in ET.parse(junit).getroot().iter('testcase'):
    if not any(ch.tag in ('failure', 'error', 'skipped') for ch in tc):
        got.add('%s::%s' % (tc.get('classname'), tc.get('name')))
missing = sorted(want - got)
print('baseline stable_pass: %d; passing now: %d; baseline tests no longer passing: %d' % (len(want), len(got), len(missing)))
for m in missing[:25]: print('  MISSING', m)
os.unlink(junit)
sys.exit(1 if missing else 0)
