#!/venv/bin/python
"""Run the repository's pinned test suite (guard off) and compare with /root/.vp/BASELINE.json stable_pass."""
import json
import os
import subprocess
import sys
import tempfile
import xml.etree.ElementTree as ET


def main():
    junit = sys.argv[1] if len(sys.argv) > 1 else None
    if junit is None:
        fd, junit = tempfile.mkstemp(suffix='.xml')
        os.close(fd)
        subprocess.call(['/venv/bin/python', '-m', 'pytest', '-q', '-p', 'no:cacheprovider', '--timeout=900',
                         '--continue-on-collection-errors', '--junitxml=' + junit, '-n', '8'],
                        cwd='/repo', stdout=subprocess.DEVNULL, stderr=subprocess.DEVNULL)
    base = json.load(open('/root/.vp/BASELINE.json'))
    want = set(base['stable_pass'])
    got = set()
    for tc in ET.parse(junit).getroot().iter('testcase'):
        ok = not any(ch.tag in ('failure', 'error', 'skipped') for ch in tc)
        if ok:
            got.add('%s::%s' % (tc.get('classname'), tc.get('name')))
    missing = sorted(want - got)
    print('baseline stable_pass: %d; passing now: %d; baseline tests no longer passing: %d'
          % (len(want), len(got), len(missing)))
    for m in missing[:20]:
        print('  MISSING', m)
    return 1 if missing else 0


if __name__ == '__main__':
    sys.exit(main())
