#!/venv/bin/python
"""
Determinism self-test (DESIGN.md section 8).

For every claimed property, N scenario indices are executed three times each, every time in a FRESH
interpreter: twice under the same PYTHONHASHSEED (event-log digest, recorded decision lists and the
whole result record must be identical) and once under a different PYTHONHASHSEED and a different
scratch location (verdicts, probes, fault counts must be identical; the event log may legitimately
differ only if the repository iterates a hash-ordered container while doing I/O -- reported).

  determinism.py [n_per_property] [ID ...]
exit 0 = no divergence.
"""
import concurrent.futures as cf
import json
import os
import random
import subprocess
import sys
import tempfile

VERIF = os.path.dirname(os.path.dirname(os.path.abspath(__file__)))
sys.path.insert(0, VERIF)
PY = sys.executable


def one(pid, idx, scn_path, tag, hashseed, scratch):
    out = os.path.join(scratch, '%s_%d_%s.json' % (pid, idx, tag))
    env = dict(os.environ, PYTHONHASHSEED=str(hashseed), VERIF_SCRATCH=os.path.join(scratch, 'run_%s_%d_%s' % (pid, idx, tag)),
               OPENBLAS_NUM_THREADS='1', OMP_NUM_THREADS='1')
    p = subprocess.run([PY, os.path.join(VERIF, 'check.py'), pid, '--run-scn', scn_path, out], env=env,
                       stdout=subprocess.DEVNULL, stderr=subprocess.PIPE, timeout=1200)
    if p.returncode != 0 or not os.path.exists(out):
        return {'error': (p.stderr or b'').decode()[-800:]}
    with open(out) as f:
        return json.load(f)


def stable(res):
    return {k: res.get(k) for k in ('violations', 'nontrivial', 'probes', 'faults', 'not_judged', 'evaluations')}


def main():
    n = int(sys.argv[1]) if len(sys.argv) > 1 else 4
    man = json.load(open(os.path.join(VERIF, 'MANIFEST.json')))
    pids = sys.argv[2:] or [c['property_id'] for c in man['checks']]
    from sim import orchestrate as o
    scratch = tempfile.mkdtemp(prefix='ctm-determinism-')
    jobs = []
    with cf.ThreadPoolExecutor(max_workers=min(16, os.cpu_count() or 4)) as ex:
        for pid in pids:
            mod = o.load_prop(pid)
            for idx in range(n):
                seed = o.scenario_seed(12345, pid, idx)
                scn = mod.gen(random.Random(seed), 'quick', idx)
                sp = os.path.join(scratch, '%s_%d.scn.json' % (pid, idx))
                with open(sp, 'w') as f:
                    json.dump(scn, f, default=o._jsonable)
                futs = [ex.submit(one, pid, idx, sp, 'a', 3, scratch), ex.submit(one, pid, idx, sp, 'b', 3, scratch),
                        ex.submit(one, pid, idx, sp, 'c', 11, os.path.join(scratch, 'elsewhere', 'deeper'))]
                jobs.append((pid, idx, futs))
        os.makedirs(os.path.join(scratch, 'elsewhere', 'deeper'), exist_ok=True)
        bad = 0
        rows = 0
        ev_diff_hs = 0
        for pid, idx, futs in jobs:
            a, b, c = [f.result() for f in futs]
            rows += 1
            if 'error' in a or 'error' in b or 'error' in c:
                print('ERROR', pid, idx, (a.get('error') or b.get('error') or c.get('error'))[-300:])
                bad += 1
                continue
            if json.dumps(a, sort_keys=True) != json.dumps(b, sort_keys=True):
                keys = [k for k in set(a) | set(b) if a.get(k) != b.get(k)]
                print('DIVERGENCE same-hashseed', pid, idx, 'fields', keys, a.get('event_digest'), b.get('event_digest'))
                bad += 1
            if json.dumps(stable(a), sort_keys=True) != json.dumps(stable(c), sort_keys=True):
                sa, sc = stable(a), stable(c)
                keys = [k for k in sa if sa[k] != sc[k]]
                print('DIVERGENCE other-hashseed', pid, idx, 'fields', keys,
                      json.dumps({k: [sa[k], sc[k]] for k in keys})[:600])
                bad += 1
            if a.get('event_digest') != c.get('event_digest'):
                ev_diff_hs += 1
    import shutil
    shutil.rmtree(scratch, ignore_errors=True)
    print('determinism: %d scenarios x 3 fresh interpreters, %d divergences; event logs differing only across hash '
          'seeds: %d' % (rows, bad, ev_diff_hs))
    return 1 if bad else 0


if __name__ == '__main__':
    sys.exit(main())
