#!/venv/bin/python
"""
Self-test of the history-aware confirmation (DESIGN section 3.6) on a toy module (props/zzhist.py) whose
"system under test" keeps a process-lifetime cache keyed by path:
  1. the check exits 1 with a VIOLATION line (not exit 2 / unconfirmed);
  2. the replay file carries a history, minimised to ONE predecessor;
  3. `check.py ZZHIST --replay <file>` reproduces it in a fresh process (exit 1);
  4. the same file with the history removed does NOT reproduce (exit 0) -- i.e. the history is what decides.
exit 0 = all four hold.
"""
import json
import os
import shutil
import subprocess
import sys
import tempfile

VERIF = os.path.dirname(os.path.dirname(os.path.abspath(__file__)))
PY = '/venv/bin/python'


def main():
    d = tempfile.mkdtemp(prefix='ctm-histtest-')
    fails = []

    def check(cond, what):
        print(('ok   ' if cond else 'FAIL ') + what)
        if not cond:
            fails.append(what)
    try:
        env = dict(os.environ, VERIF_EVIDENCE_DIR=os.path.join(d, 'ev'), VERIF_REPLAY_DIR=os.path.join(d, 'rp'),
                   VERIF_SCRATCH=os.path.join(d, 'run'), VERIF_SHARDS='4')
        p = subprocess.run([PY, os.path.join(VERIF, 'check.py'), 'ZZHIST', '--tier', 'quick'], env=env,
                           stdout=subprocess.PIPE, stderr=subprocess.STDOUT, text=True, cwd=VERIF)
        lines = [ln for ln in p.stdout.splitlines() if ln.startswith('VIOLATION')]
        check(p.returncode == 1 and len(lines) == 1, 'stale read reported as a VIOLATION (exit %d)' % p.returncode)
        if not lines:
            print(p.stdout[-1500:])
            return 1
        rpath = lines[0].split('replay=')[1].strip()
        rp = json.load(open(rpath))
        check(len(rp.get('history') or []) == 1, 'replay file carries a history minimised to one predecessor (%d)'
              % len(rp.get('history') or []))
        r2 = subprocess.run([PY, os.path.join(VERIF, 'check.py'), 'ZZHIST', '--replay', rpath], env=env,
                            stdout=subprocess.PIPE, stderr=subprocess.STDOUT, text=True, cwd=VERIF)
        check(r2.returncode == 1 and 'VIOLATION property=ZZHIST' in r2.stdout, 'replay with its history reproduces')
        rp.pop('history', None)
        rp.pop('history_indices', None)
        bare = os.path.join(d, 'bare.json')
        json.dump(rp, open(bare, 'w'))
        r3 = subprocess.run([PY, os.path.join(VERIF, 'check.py'), 'ZZHIST', '--replay', bare], env=env,
                            stdout=subprocess.PIPE, stderr=subprocess.STDOUT, text=True, cwd=VERIF)
        check(r3.returncode == 0, 'the same scenario without its history does not reproduce (exit %d)' % r3.returncode)
    finally:
        shutil.rmtree(d, ignore_errors=True)
    print('history self-test: %d failures' % len(fails))
    return 1 if fails else 0


if __name__ == '__main__':
    sys.exit(main())
