#!/venv/bin/python
"""
Self-test of the simulation kernel on a toy system (no repository code involved):

 1. a pool of n workers driven by the repository's busy-wait idiom reaches ALL n! completion orders
    under the 'perm' policy and many under 'random';
 2. kill / exit / raise at before / mid / after produce the real exit codes (-9, n, 1);
 3. a toy pool with a genuine completion-order race (results appended in completion order) is detected
    as schedule dependent, and the corrected toy is not;
 4. replaying a recorded decision list reproduces the same event log;
 5. a worker paused while others run (pre-emption) and a manager lock shared by workers do not deadlock.

exit 0 = all assertions hold.
"""
import itertools
import json
import math
import os
import shutil
import sys
import tempfile

VERIF = os.path.dirname(os.path.dirname(os.path.abspath(__file__)))
sys.path.insert(0, VERIF)

from sim import kernel  # noqa: E402
from sim.kernel import KERNEL, SimProcess  # noqa: E402


def worker(path, i, touch_first=True):
    # two seam events: an HDF5-free 'open' for writing through the kernel's open seam
    with KERNEL.sim_open(path + '.%d.a' % i, 'w') as f:
        f.write('a')
    with KERNEL.sim_open(path + '.%d.b' % i, 'w') as f:
        f.write('b')


def racy_worker(path, i):
    with KERNEL.sim_open(path + '.log', 'a') as f:
        f.write('%d\n' % i)


def pool(n, target, base, n_proc):
    """the repository's idiom: start, throttle on exitcode polls, final drain"""
    procs = []
    for i in range(n):
        p = SimProcess(target=target, args=(base, i))
        p.start()
        procs.append(p)
        while len(procs) >= n_proc:
            procs = winnow(procs)
    while procs:
        procs = winnow(procs)


def winnow(procs):
    out = []
    for p in procs:
        code = p.exitcode
        if code is None:
            out.append(p)
        elif code != 0:
            raise RuntimeError('worker exited with code %r' % code)
    return out


def run(spec, n=3, target=worker, n_proc=99):
    root = tempfile.mkdtemp(prefix='ctm-kst-')
    trace = root + '.trace'
    os.makedirs(os.path.join(root, 'systmp'))
    KERNEL.begin_scenario(root, trace, os.path.join(root, 'systmp'))
    err = None
    try:
        with KERNEL.call(spec) as s:
            try:
                pool(n, target, os.path.join(root, 'out'), n_proc)
            except RuntimeError as e:
                err = str(e)
        log = None
        lp = os.path.join(root, 'out.log')
        if os.path.exists(lp):
            log = open(lp).read().split()
        dig = kernel.event_digest(KERNEL, trace)
        return s, err, log, dig
    finally:
        KERNEL.end_scenario()
        shutil.rmtree(root, ignore_errors=True)
        shutil.rmtree(trace, ignore_errors=True)


def main():
    fails = []

    def check(cond, what):
        print(('ok   ' if cond else 'FAIL ') + what)
        if not cond:
            fails.append(what)

    # 1. completion-order reach
    for n in (2, 3, 4):
        seen = set()
        for perm in itertools.permutations(range(n)):
            s, err, _, _ = run({'policy': 'perm', 'perm': list(perm), 'seed': 1}, n=n)
            seen.add(tuple(s.completion))
        check(len(seen) == math.factorial(n), 'perm policy reaches all %d! completion orders (%d)' % (n, len(seen)))
    seen = set()
    for seed in range(60):
        s, _, _, _ = run({'policy': 'random', 'seed': seed, 'p_run': 0.5, 'p_vis': 0.5}, n=3)
        seen.add((tuple(s.completion), tuple(s.visible_order)))
    check(len(seen) >= 12, 'random policy reaches many (completion, visibility) orders: %d' % len(seen))
    # 2. faults
    for mode, point, want in (('kill', 'before', '-9'), ('kill', 'mid', '-9'), ('kill', 'after', '-9'),
                              ('exit', 'before', '3'), ('exit', 'mid', '3'), ('exit', 'after', '3'),
                              ('raise', 'before', '1'), ('raise', 'mid', '1'), ('raise', 'after', '1'),
                              ('sysexit', 'mid', '2')):
        f = {'point': point, 'mode': mode, 'code': 3 if mode == 'exit' else 2}
        if point == 'mid':
            f['k'] = 2
        s, err, _, _ = run({'policy': 'random', 'seed': 5, 'faults': {'1': f}}, n=3)
        check(err is not None and err.endswith('code %s' % want), '%s/%s -> exit code %s (%r)' % (mode, point, want, err))
    # 3. a toy race is detected, the correct toy is not
    logs = set()
    for seed in range(40):
        s, err, log, _ = run({'policy': 'random', 'seed': seed}, n=3, target=racy_worker)
        logs.add(tuple(log))
    check(len(logs) > 1, 'toy pool appending in completion order is schedule dependent (%d distinct logs)' % len(logs))
    logs = set()
    for seed in range(40):
        s, err, log, _ = run({'policy': 'random', 'seed': seed}, n=3, target=racy_worker)
        logs.add(tuple(sorted(log)))
    check(len(logs) == 1, 'the same toy re-ordered by key is schedule independent')
    # 4. replay of a decision list
    s1, _, _, d1 = run({'policy': 'random', 'seed': 77, 'pause_p': 0.7}, n=4, n_proc=2)
    s2, _, _, d2 = run({'policy': 'random', 'seed': 12345, 'pause_p': 0.7, 'decisions': list(s1.decisions)}, n=4, n_proc=2)
    check(d1 == d2 and s1.log == s2.log, 'replaying the recorded decision list reproduces the event log exactly')
    s3, _, _, d3 = run({'policy': 'random', 'seed': 77, 'pause_p': 0.7}, n=4, n_proc=2)
    check(d1 == d3, 'same seed, same event-log digest')
    # 5. pre-emption really happens
    s, err, _, _ = run({'policy': 'random', 'seed': 3, 'pauses': {'0': [1], '1': [2]}}, n=3)
    check(err is None and s.pause_count == 2, 'workers paused at seam events and resumed (%d pauses)' % s.pause_count)
    # 6. a parent that BLOCKS on worker sentinels (multiprocessing.connection.wait) instead of polling exit codes
    def sentinel_pool(n, target, base, n_proc):
        import multiprocessing.connection
        procs = []
        for i in range(n):
            p = SimProcess(target=target, args=(base, i))
            p.start()
            procs.append(p)
        left = list(procs)
        while left:
            ready = multiprocessing.connection.wait([p.sentinel for p in left])
            left = [p for p in left if p.sentinel not in ready]
        return [p.exitcode for p in procs]
    root = tempfile.mkdtemp(prefix='ctm-kst-')
    os.makedirs(os.path.join(root, 'systmp'))
    KERNEL.begin_scenario(root, root + '.trace', os.path.join(root, 'systmp'))
    try:
        with KERNEL.call({'policy': 'random', 'seed': 9, 'faults': {'1': {'point': 'mid', 'mode': 'kill', 'k': 1}}}) as s6:
            codes = sentinel_pool(3, worker, os.path.join(root, 'out'), 99)
    finally:
        KERNEL.end_scenario()
        shutil.rmtree(root, ignore_errors=True)
        shutil.rmtree(root + '.trace', ignore_errors=True)
    check(codes == [0, -9, 0] and len(s6.completion) == 3,
          'a drain that blocks on sentinels terminates and then sees the real exit codes (%r)' % (codes,))
    print('kernel self-test: %d failures' % len(fails))
    return 1 if fails else 0


if __name__ == '__main__':
    sys.exit(main())
