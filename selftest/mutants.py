#!/venv/bin/python
"""
Sensitivity self-test: apply small source mutations to a scratch copy of /repo/src
(outside /repo and /verif, removed afterwards) and run the relevant quick check against
it through VERIF_REPO_SRC.  Each mutant must yield a VIOLATION (exit 1).

  mutants.py list
  mutants.py run <name> [<name> ...]      (or 'all')
"""
import json
import os
import shutil
import subprocess
import sys
import time

VERIF = os.path.dirname(os.path.dirname(os.path.abspath(__file__)))

# name -> (property, relative file, old text, new text)
MUTANTS = {}


def M(name, prop, path, old, new, quota=None, count=1):
    MUTANTS[name] = dict(prop=prop, path=path, old=old, new=new, quota=quota, count=count)


# ---- C04 ------------------------------------------------------------------------------------
M('c04_no_reorder', 'C04', 'cell_type_mapper/type_assignment/election_runner.py',
  "    result = re_order_blob(\n        results_blob=result,\n        query_path=query_h5ad_path)\n",
  "")
M('c04_rng_from_clock', 'C04', 'cell_type_mapper/type_assignment/election.py',
  "'rng': np.random.default_rng(rng.integers(99, 2**32)),",
  "'rng': np.random.default_rng(int(time.time()*1000) % 2**32),")
M('c04_stats_merge_listing', 'C04', 'cell_type_mapper/diff_exp/precompute_from_anndata.py',
  "    for buffer_path in buffer_path_list:\n        with h5py.File(buffer_path, 'r') as src:",
  "    for buffer_path in [str(pp) for pp in pathlib.Path(tmp_dir).iterdir()]:\n        with h5py.File(buffer_path, 'r') as src:")
M('c04_hash_order_markers', 'C04', 'cell_type_mapper/type_assignment/marker_cache_v2.py',
  "            if len(these_reference) > 0:\n                these_reference = np.array(these_reference)\n                these_query = np.array(these_query)\n                sorted_dex = np.argsort(these_reference)\n                these_reference = these_reference[sorted_dex]\n                these_query = these_query[sorted_dex]\n",
  "            if len(these_reference) > 0:\n                these_reference = np.array(these_reference)\n                these_query = np.array(these_query)\n")

# ---- C14 ------------------------------------------------------------------------------------
M('c14_negative_code_ok', 'C14', 'cell_type_mapper/utils/multiprocessing_utils.py',
  ".exitcode != 0:", ".exitcode > 0:", count=2)
M('c14_mapping_swallow', 'C14', 'cell_type_mapper/type_assignment/election.py',
  "    while len(process_list) > 0:\n        process_list = winnow_process_list(process_list)\n\n    if buffer_dir is not None:",
  "    while len(process_list) > 0:\n        try:\n            process_list = winnow_process_list(process_list)\n        except RuntimeError:\n            process_list = [p for p in process_list if p.exitcode is None]\n\n    if buffer_dir is not None:")
M('c14_refmarkers_in_place', 'C14', 'cell_type_mapper/diff_exp/markers.py',
  "    tmp_path = create_sparse_by_pair_marker_file(", "    shutil.copy(src=precomputed_stats_path, dst=output_path) if False else None\n    tmp_path = create_sparse_by_pair_marker_file(")
M('c14_stats_tree_first', 'C14', 'cell_type_mapper/diff_exp/precompute.py',
  "        out_file.create_dataset('n_cells', shape=(n_clusters,), dtype=int)",
  "        out_file.create_dataset('n_cells', shape=(n_clusters,), dtype=int)\n        out_file.create_dataset('taxonomy_tree', data=b'{}')")


def run_mutant(name, tier='quick'):
    m = MUTANTS[name]
    scratch = '/tmp/ctm-mut-%d-%s' % (os.getpid(), name)
    shutil.rmtree(scratch, ignore_errors=True)
    os.makedirs(scratch)
    src = os.path.join(scratch, 'src')
    shutil.copytree('/repo/src', src, ignore=shutil.ignore_patterns('*.egg-info', '__pycache__'))
    fp = os.path.join(src, m['path'])
    with open(fp) as f:
        text = f.read()
    if text.count(m['old']) != m.get('count', 1):
        shutil.rmtree(scratch, ignore_errors=True)
        return {'name': name, 'status': 'PATTERN-NOT-FOUND(%d)' % text.count(m['old'])}
    with open(fp, 'w') as f:
        f.write(text.replace(m['old'], m['new']))
    env = dict(os.environ, VERIF_REPO_SRC=src, VERIF_SCRATCH=os.path.join(scratch, 'run'),
               VERIF_EVIDENCE_DIR=os.path.join(scratch, 'evidence'),
               VERIF_REPLAY_DIR=os.path.join(scratch, 'replays'), VERIF_NO_MINIMISE='1')
    if m.get('quota'):
        env['VERIF_QUOTA'] = str(m['quota'])
    t0 = time.time()
    p = subprocess.run([sys.executable, os.path.join(VERIF, 'check.py'), m['prop'], '--tier', tier],
                       env=env, stdout=subprocess.PIPE, stderr=subprocess.STDOUT, text=True)
    out = p.stdout
    viol = [ln for ln in out.splitlines() if ln.startswith('violation class')]
    res = {'name': name, 'prop': m['prop'], 'exit': p.returncode, 'wall': round(time.time() - t0, 1),
           'status': 'CAUGHT' if p.returncode == 1 and 'VIOLATION property=' in out else
           ('HARNESS-ERROR' if p.returncode == 2 else 'MISSED'),
           'classes': [v[:220] for v in viol[:4]]}
    if res['status'] != 'CAUGHT':
        res['tail'] = out[-1500:]
    shutil.rmtree(scratch, ignore_errors=True)
    return res


def main():
    if len(sys.argv) < 2 or sys.argv[1] == 'list':
        for k, m in MUTANTS.items():
            print(k, m['prop'], m['path'])
        return 0
    names = sys.argv[2:]
    if names == ['all']:
        names = list(MUTANTS)
    rc = 0
    for n in names:
        r = run_mutant(n)
        print(json.dumps(r), flush=True)
        if r['status'] != 'CAUGHT':
            rc = 1
    return rc


if __name__ == '__main__':
    sys.exit(main())
