#!/venv/bin/python
"""
Sensitivity self-test: apply small source mutations to a scratch copy of /repo/src
(outside /repo and /verif, removed afterwards) and run the relevant quick check against
it through VERIF_REPO_SRC.  Each mutant must yield a VIOLATION (exit 1).

  mutants.py list
  mutants.py run <name> [<name> ...]      (or 'all')
"""
import json
import os
import shutil
import subprocess
import sys
import time

VERIF = os.path.dirname(os.path.dirname(os.path.abspath(__file__)))

# name -> (property, relative file, old text, new text)
MUTANTS = {}


def M(name, prop, path, old, new, quota=None, count=1):
    MUTANTS[name] = dict(prop=prop, path=path, old=old, new=new, quota=quota, count=count)


# ---- C04 ------------------------------------------------------------------------------------
M('c04_no_reorder', 'C04', 'cell_type_mapper/type_assignment/election_runner.py',
  "    result = re_order_blob(\n        results_blob=result,\n        query_path=query_h5ad_path)\n",
  "")
M('c04_rng_from_clock', 'C04', 'cell_type_mapper/type_assignment/election.py',
  "'rng': np.random.default_rng(rng.integers(99, 2**32)),",
  "'rng': np.random.default_rng(int(time.time()*1000) % 2**32),")
M('c04_stats_merge_listing', 'C04', 'cell_type_mapper/diff_exp/precompute_from_anndata.py',
  "    for buffer_path in buffer_path_list:\n        with h5py.File(buffer_path, 'r') as src:",
  "    for buffer_path in [str(pp) for pp in pathlib.Path(tmp_dir).iterdir()]:\n        with h5py.File(buffer_path, 'r') as src:")
M('c04_hash_order_markers', 'C04', 'cell_type_mapper/type_assignment/marker_cache_v2.py',
  "            if len(these_reference) > 0:\n                these_reference = np.array(these_reference)\n                these_query = np.array(these_query)\n                sorted_dex = np.argsort(these_reference)\n                these_reference = these_reference[sorted_dex]\n                these_query = these_query[sorted_dex]\n",
  "            if len(these_reference) > 0:\n                these_reference = np.array(these_reference)\n                these_query = np.array(these_query)\n")
M('c04_parent_peeks_at_live_buffer', 'C04', 'cell_type_mapper/diff_exp/precompute_from_anndata.py',
  "            p.start()\n\n            process_list.append(p)\n",
  "            p.start()\n\n            process_list.append(p)\n            if len(process_list) > 1:\n                open(buffer_path_list[-2], 'rb').close()\n")
M('c04_drain_never_shrinks', 'C04', 'cell_type_mapper/utils/csc_to_csr_parallel.py',
  "    while len(process_list) > 0:\n        process_list = winnow_process_list(process_list)\n",
  "    while len(process_list) > 0:\n        winnow_process_list(list(process_list))\n")

# ---- C14 ------------------------------------------------------------------------------------
M('c14_negative_code_ok', 'C14', 'cell_type_mapper/utils/multiprocessing_utils.py',
  ".exitcode != 0:", ".exitcode > 0:", count=2)
M('c14_mapping_swallow', 'C14', 'cell_type_mapper/type_assignment/election.py',
  "    while len(process_list) > 0:\n        process_list = winnow_process_list(process_list)\n\n    if buffer_dir is not None:",
  "    while len(process_list) > 0:\n        try:\n            process_list = winnow_process_list(process_list)\n        except RuntimeError:\n            process_list = [p for p in process_list if p.exitcode is None]\n\n    if buffer_dir is not None:")
M('c14_refmarkers_copied_early_EQUIVALENT', 'C14', 'cell_type_mapper/diff_exp/markers.py',
  "    duration = time.time()-t0\n    msg = f\"Initial marker discovery took {duration:.2e} seconds\"",
  "    shutil.copy(src=tmp_path, dst=output_path)\n    duration = time.time()-t0\n    msg = f\"Initial marker discovery took {duration:.2e} seconds\"")
M('c14_stats_complete_looking_on_failure', 'C14', 'cell_type_mapper/diff_exp/precompute_from_anndata.py',
  "    buffer_path_list = []\n    process_list = []\n    for work_spec in work_load:",
  "    _create_empty_stats_file(\n        output_path=output_path,\n        cluster_to_output_row=cluster_to_output_row,\n        n_clusters=n_clusters,\n        n_genes=n_genes,\n        col_names=gene_names)\n    with h5py.File(output_path, 'a') as _early:\n        _early.create_dataset('taxonomy_tree', data=EARLY_TREE[0])\n    buffer_path_list = []\n    process_list = []\n    for work_spec in work_load:")
MUTANTS['c14_stats_complete_looking_on_failure']['extra'] = [
  ('cell_type_mapper/diff_exp/precompute_from_anndata.py',
   "def precompute_summary_stats_from_h5ad_list_and_tree(", "EARLY_TREE = [b'{}']\n\n\ndef precompute_summary_stats_from_h5ad_list_and_tree("),
  ('cell_type_mapper/diff_exp/precompute_from_anndata.py',
   "    leaf_to_cells = taxonomy_tree.leaf_to_cells\n\n    cluster_list = list(leaf_to_cells.keys())",
   "    EARLY_TREE[0] = taxonomy_tree.to_str().encode('utf-8')\n    leaf_to_cells = taxonomy_tree.leaf_to_cells\n\n    cluster_list = list(leaf_to_cells.keys())"),
  ('cell_type_mapper/diff_exp/precompute_from_anndata.py',
   "    while len(process_list) > 0:\n        process_list = winnow_process_list(process_list)\n\n    _create_empty_stats_file(\n        output_path=output_path,\n        cluster_to_output_row=cluster_to_output_row,\n        n_clusters=n_clusters,\n        n_genes=n_genes,\n        col_names=gene_names)\n",
   "    while len(process_list) > 0:\n        process_list = winnow_process_list(process_list)\n"),
  ('cell_type_mapper/diff_exp/precompute_from_anndata.py',
   "    with h5py.File(output_path, 'a') as out_file:\n        out_file.create_dataset(\n            'taxonomy_tree',\n            data=taxonomy_tree.to_str().encode('utf-8'))\n\n\ndef precompute_summary_stats_from_h5ad_and_lookup(",
   "    with h5py.File(output_path, 'a') as out_file:\n        if 'taxonomy_tree' not in out_file:\n            out_file.create_dataset(\n                'taxonomy_tree',\n                data=taxonomy_tree.to_str().encode('utf-8'))\n\n\ndef precompute_summary_stats_from_h5ad_and_lookup("),
]


# ---- C01 ------------------------------------------------------------------------------------
M('c01_name_chunk_off_by_one', 'C01', 'cell_type_mapper/type_assignment/election.py',
  "name_chunk = query_cell_names[r0:r1]", "name_chunk = query_cell_names[r0+1:r1+1] + query_cell_names[r0:r0+1]")
M('c01_no_reorder', 'C01', 'cell_type_mapper/type_assignment/election_runner.py',
  "    result = re_order_blob(\n        results_blob=result,\n        query_path=query_h5ad_path)\n", "")
M('c01_backfill_flag', 'C01', 'cell_type_mapper/taxonomy/taxonomy_tree.py',
  "                new_data['directly_assigned'] = False\n", "")
M('c01_prev_assigned_key', 'C01', 'cell_type_mapper/type_assignment/election.py',
  "                previously_assigned[child_level][celltype] = assigned_this",
  "                previously_assigned[child_level][celltype] = assigned_this if idx > 0 else chosen_idx")
# ---- C03 ------------------------------------------------------------------------------------
M('c03_aggregate_sum', 'C03', 'cell_type_mapper/type_assignment/election.py',
  "            prob *= cell[level]['bootstrapping_probability']",
  "            prob = min(1.0, 0.5*(prob + cell[level]['bootstrapping_probability']))")
M('c03_runner_up_zero_votes', 'C03', 'cell_type_mapper/type_assignment/election.py',
  " for this in r_up if this[1]]", " for this in r_up]", count=3)
M('c03_fraction_denominator', 'C03', 'cell_type_mapper/type_assignment/election.py',
  "    vote_fractions = votes / bootstrap_iteration", "    vote_fractions = votes / max(1, bootstrap_iteration - 1)")

# ---- C02 ------------------------------------------------------------------------------------
M('c02_with_replacement', 'C02', 'cell_type_mapper/type_assignment/election.py',
  "chosen_idx = rng.choice(marker_idx, n_bootstrap, replace=False)",
  "chosen_idx = rng.choice(marker_idx, n_bootstrap, replace=True)")
M('c02_floor_sample_size', 'C02', 'cell_type_mapper/type_assignment/election.py',
  "    n_bootstrap = np.round(bootstrap_factor*n_markers).astype(int)",
  "    n_bootstrap = np.floor(bootstrap_factor*n_markers).astype(int)")
M('c02_query_cols_unsorted', 'C01', 'cell_type_mapper/type_assignment/marker_cache_v2.py',
  "                these_query = these_query[sorted_dex]\n", "")
M('c02_loser_wins', 'C02', 'cell_type_mapper/type_assignment/election.py',
  "    sorted_by_votes = np.argsort(votes, axis=1)[:, -1::-1]",
  "    sorted_by_votes = np.argsort(votes, axis=1, kind='stable')")
M('c02_all_leaves', 'C02', 'cell_type_mapper/type_assignment/election.py',
  "        corr_sum[query_idx, nearest_neighbors] += corr_values",
  "        corr_sum[query_idx, nearest_neighbors] += np.abs(corr_values)")
# ---- C08 ------------------------------------------------------------------------------------
M('c08_farthest_first', 'C08', 'cell_type_mapper/type_assignment/marker_cache_v2.py',
  "                for ancestor_level in reverse_hier:", "                for ancestor_level in taxonomy_tree.hierarchy:")
M('c08_stop_late', 'C08', 'cell_type_mapper/type_assignment/marker_cache_v2.py',
  "                                    set(new_markers))) >= min_markers:",
  "                                    set(new_markers))) > min_markers:")
M('c08_unknown_gene_tolerated', 'C08', 'cell_type_mapper/type_assignment/marker_cache_v2.py',
  "    if len(missing_reference_markers) > 0:", "    if len(missing_reference_markers) > 1000:")
# ---- C15 ------------------------------------------------------------------------------------
M('c15_three_decimals', 'C15', 'cell_type_mapper/utils/output_utils.py',
  "float_format='%.4f'", "float_format='%.3f'")
M('c15_alias_is_name', 'C15', 'cell_type_mapper/utils/output_utils.py',
  "                            name_key='alias')", "                            name_key='name')")
M('c15_keep_cells', 'C15', 'cell_type_mapper/cli/from_specified_markers.py',
  "        data=json.loads(taxonomy_tree.to_str(drop_cells=True)))", "        data=json.loads(taxonomy_tree.to_str(drop_cells=False)))")

# ---- C06 / C07 / C17 ---------------------------------------------------------------------------
M('c06_chunk_wide_cpm', 'C06', 'cell_type_mapper/cell_by_gene/utils.py',
  "    row_sums = np.sum(data, axis=1)\n    denom = np.where(row_sums > 0.0, row_sums, 1.)\n    cpm = data.transpose()/denom",
  "    row_sums = np.sum(data, axis=1)\n    denom = np.where(row_sums > 0.0, row_sums, 1.)\n    denom = np.maximum(denom, np.median(denom))\n    cpm = data.transpose()/denom")
M('c06_chunk_mean_subtracted', 'C06', 'cell_type_mapper/type_assignment/election.py',
  "        bootstrap_query = query_gene_data[:, chosen_idx]",
  "        bootstrap_query = query_gene_data[:, chosen_idx] + (query_gene_data[:1, chosen_idx] > 3.0)")
M('c07_negative_accepted', 'C07', 'cell_type_mapper/type_assignment/election_runner.py',
  "        if not is_ge_zero[0]:", "        if False and not is_ge_zero[0]:")
M('c07_cpm_factor', 'C07', 'cell_type_mapper/cell_by_gene/utils.py',
  "    cpm = 1.0e6*cpm\n    return cpm.transpose()", "    cpm = 1.0e5*cpm\n    return cpm.transpose()")
M('c07_columns_by_position', 'C07', 'cell_type_mapper/type_assignment/marker_cache_v2.py',
  "                these_query.append(query_name_to_int[gene])",
  "                these_query.append(min(len(query_gene_names)-1, reference_name_to_int[gene]))")
M('c17_flatten_drops_root_list', 'C17', 'cell_type_mapper/cli/from_specified_markers.py',
  "            if k not in ('log', 'metadata'):", "            if k not in ('log', 'metadata', 'None'):")
M('c08_missing_ancestor_gets_root_gene', 'C08', 'cell_type_mapper/type_assignment/marker_cache_v2.py',
  "                        if ancestor_str not in marker_lookup:\n                            continue",
  "                        if ancestor_str not in marker_lookup:\n                            new_markers = new_markers.union(set(marker_lookup.get('None', [])[:1]))\n                            continue")
M('c17_markers_validated_on_full_tree', 'C17', 'cell_type_mapper/cli/from_specified_markers.py',
  "    if config['drop_level'] is not None:\n        if config['drop_level'] in taxonomy_tree.hierarchy:\n            taxonomy_tree = taxonomy_tree.drop_level(config['drop_level'])\n",
  "    full_tree_for_markers = taxonomy_tree\n    if config['drop_level'] is not None:\n        if config['drop_level'] in taxonomy_tree.hierarchy:\n            taxonomy_tree = taxonomy_tree.drop_level(config['drop_level'])\n")
MUTANTS['c17_markers_validated_on_full_tree']['extra'] = [(
  'cell_type_mapper/cli/from_specified_markers.py',
  "        log=log,\n        taxonomy_tree=taxonomy_tree,\n        min_markers=config['type_assignment']['min_markers'])",
  "        log=log,\n        taxonomy_tree=(full_tree_for_markers if not config['flatten'] else taxonomy_tree),\n        min_markers=config['type_assignment']['min_markers'])")]

# ---- C20 ------------------------------------------------------------------------------------
M('c20_embedded_log_raw', 'C20', 'cell_type_mapper/cli/from_specified_markers.py',
  "        if config['cloud_safe']:\n            output_log = sanitize_paths(output_log)",
  "        if config['cloud_safe'] and False:\n            output_log = sanitize_paths(output_log)")
M('c20_log_file_raw', 'C20', 'cell_type_mapper/cli/from_specified_markers.py',
  "            log.write_log(log_path, cloud_safe=config['cloud_safe'])",
  "            log.write_log(log_path, cloud_safe=False)")
M('c20_bracketed_path_message', 'C20', 'cell_type_mapper/file_tracker/file_tracker.py',
  "                msg = (f\"FILE TRACKER: copied ../{file_path.name} \"\n                       f\"to ../{tmp_path.name}\")",
  "                msg = (f\"FILE TRACKER: copied [{file_path}] \"\n                       f\"to ../{tmp_path.name}\")")
M('c20_equals_path_message', 'C20', 'cell_type_mapper/cli/from_specified_markers.py',
  "    log.info(f\"using ../{precomputed_loc.name} for precomputed_stats\")",
  "    log.info(f\"using stats={precomputed_loc} for precomputed_stats\")")

# ---- C18 ------------------------------------------------------------------------------------
M('c18_leaf_means_shifted', 'C18', 'cell_type_mapper/type_assignment/matching.py',
  "        data[i_leaf, :] = this_mean", "        data[(i_leaf + 1) % n_cells, :] = this_mean")
M('c18_stats_rows_by_sorted_name_EQUIVALENT', 'C18', 'cell_type_mapper/diff_exp/precompute_from_anndata.py',
  "    cluster_list = list(leaf_to_cells.keys())\n    cluster_list.sort()\n",
  "    cluster_list = list(leaf_to_cells.keys())\n    cluster_list.sort(key=lambda x: x[::-1])\n")
M('c18_all_parents_get_no_markers', 'C12', 'cell_type_mapper/marker_selection/selection_pipeline.py',
  "    output_dict[parent_node] = marker_genes", "    output_dict[parent_node] = marker_genes[:0]")

# ---- C05 / C13 ------------------------------------------------------------------------------
M('c05_last_entry_dropped', 'C05', 'cell_type_mapper/utils/sparse_utils.py',
  "    index1 = these_ptrs[-1]\n", "    index1 = these_ptrs[-1] - (1 if indptr_spec[0] > 0 and these_ptrs[-1] > these_ptrs[0] else 0)\n")
M('c05_dense_batch_sorted', 'C05', 'cell_type_mapper/anndata_iterator/anndata_iterator.py',
  "            output[idx, :] = raw[ii, :]", "            output[ii, :] = raw[ii, :]")
M('c05_chunk_skips_row', 'C05', 'cell_type_mapper/anndata_iterator/anndata_iterator.py',
  "        r1 = min(self.n_rows, self.r0+self.row_chunk_size)\n        chunk = self.get_chunk(r0=self.r0, r1=r1)\n        self.r0 = r1\n        return chunk\n\n    def get_chunk(self, r0, r1):\n        \"\"\"\n        Returns the tuple (data[r0:r1, :], r0, r1)\n        \"\"\"\n        with self.h5_handler as h5_handle:\n            chunk = load_csr(",
  "        r1 = min(self.n_rows, self.r0+self.row_chunk_size)\n        chunk = self.get_chunk(r0=self.r0, r1=r1)\n        self.r0 = r1 + (1 if r1 == 7 else 0)\n        return chunk\n\n    def get_chunk(self, r0, r1):\n        \"\"\"\n        Returns the tuple (data[r0:r1, :], r0, r1)\n        \"\"\"\n        with self.h5_handler as h5_handle:\n            chunk = load_csr(")
M('c13_next_slot_not_advanced', 'C13', 'cell_type_mapper/utils/csc_to_csr.py',
  "                next_idx[unq_val] += unq_ct", "                next_idx[unq_val] += 0")
M('c13_parallel_offset', 'C13', 'cell_type_mapper/utils/csc_to_csr_parallel.py',
  "                indptr[indptr_idx:indptr_idx+src_n_ptr] = (src_indptr[:-1]\n                                                           + indices_idx)",
  "                indptr[indptr_idx:indptr_idx+src_n_ptr] = (src_indptr[:-1]\n                                                           + indptr_idx)")
M('c13_merge_csr_offset', 'C13', 'cell_type_mapper/utils/anndata_utils.py',
  "                indptr_offset = (src['indptr'][-1].astype(index_dtype)\n                                 + indptr_offset)",
  "                indptr_offset = (src['indptr'][-1].astype(index_dtype)\n                                 + indptr_offset - (1 if n_data > 3 else 0))")
M('c13_unsorted_minor', 'C13', 'cell_type_mapper/utils/csc_to_csr.py',
  "                this_index = this_index[col_sorted_dex]\n", "                this_index = this_index[col_sorted_dex[::-1]]\n")

# ---- C09 ------------------------------------------------------------------------------------
M('c09_ge1_strict', 'C09', 'cell_type_mapper/utils/stats_utils.py',
  "    result['ge1'] = (data > one_cutoff-eps).sum(axis=0)", "    result['ge1'] = (data > one_cutoff+eps).sum(axis=0)")
M('c09_last_chunk_dropped', 'C09', 'cell_type_mapper/diff_exp/precompute_from_anndata.py',
  "        for r0 in range(0, n_cells, rows_at_a_time):\n            r1 = min(n_cells, r0+rows_at_a_time)",
  "        for r0 in range(0, n_cells, rows_at_a_time):\n            r1 = min(n_cells - (1 if n_cells > 9 and r0 > 0 else 0), r0+rows_at_a_time)")
M('c09_unlabelled_counted', 'C09', 'cell_type_mapper/diff_exp/precompute_from_anndata.py',
  "        if unq_cluster == bad_row_idx:\n            continue", "        if unq_cluster == bad_row_idx:\n            unq_cluster = 0")
M('c09_truncate_keeps_one_leaf', 'C09', 'cell_type_mapper/diff_exp/truncate_precompute.py',
  "        src_rows.sort()\n        src_rows = np.array(src_rows)", "        src_rows.sort()\n        src_rows = np.array(src_rows[:2])")
M('c09_merge_fewest', 'C09', 'cell_type_mapper/diff_exp/precompute_utils.py',
  "                to_replace = np.where(src_n_cells > dst_n_cells)[0]", "                to_replace = np.where(src_n_cells < dst_n_cells)[0]")
M('c09_sumsq_of_sum', 'C09', 'cell_type_mapper/diff_exp/precompute_from_anndata.py',
  "                    final_output[k][:, :] += src[k][()]", "                    final_output[k][:, :] += (src[k][()] if k != 'gt0' else np.minimum(src[k][()], 1))")

# ---- C16 ------------------------------------------------------------------------------------
M('c16_uint8_for_255_5', 'C16', 'cell_type_mapper/utils/utils.py',
  "    int_min = np.round(x_minmax[0])\n    int_max = np.round(x_minmax[1])", "    int_min = np.floor(x_minmax[0])\n    int_max = np.floor(x_minmax[1])")
M('c16_floor_instead_of_round', 'C16', 'cell_type_mapper/validation/utils.py',
  "np.round(", "np.floor(", count=None)
M('c16_in_place', 'C16', 'cell_type_mapper/validation/validate_h5ad.py',
  "            write_df_to_h5ad(\n                h5ad_path=tmp_h5ad_path,\n                df_name='var',\n                df_value=mapped_var)",
  "            write_df_to_h5ad(\n                h5ad_path=original_h5ad_path,\n                df_name='var',\n                df_value=mapped_var)")
M('c16_no_cleanup_on_error', 'C16', 'cell_type_mapper/validation/validate_h5ad.py',
  "    finally:\n        _clean_up(tmp_dir)\n\n    return result", "    except ZeroDivisionError:\n        raise\n    _clean_up(tmp_dir)\n\n    return result")
M('c16_version_kept', 'C16', 'cell_type_mapper/gene_id/gene_id_mapper.py',
  "        return [n.split('.')[0] for n in gene_id_array]", "        return [n for n in gene_id_array]")
M('c16_mapped_count', 'C16', 'cell_type_mapper/validation/validate_h5ad.py',
  "            {'AIBS_CDM_n_mapped_genes': n_genes-n_unmapped_genes})", "            {'AIBS_CDM_n_mapped_genes': n_genes})")

# ---- C11 ------------------------------------------------------------------------------------
M('c11_holm_off_by_one', 'C11', 'cell_type_mapper/utils/stats_utils.py',
  "    t_denom = n_p+padding+1-np.arange(1, n_p+1, dtype=int)", "    t_denom = n_p+padding-np.arange(1, n_p+1, dtype=int)")
M('c11_direction_flipped', 'C11', 'cell_type_mapper/diff_exp/scores.py',
  "    up_mask[stats_2[\"mean\"] > stats_1[\"mean\"]] = 1", "    up_mask[stats_2[\"mean\"] < stats_1[\"mean\"]] = 1")
M('c11_floors_ignored', 'C11', 'cell_type_mapper/diff_exp/scores.py',
  "        valid[distances['invalid']] = False\n", "")
M('c11_single_cell_clusters', 'C11', 'cell_type_mapper/diff_exp/scores.py',
  "        n_cells_min=2,", "        n_cells_min=1,")
M('c11_no_holm', 'C11', 'cell_type_mapper/diff_exp/scores.py',
  "        pvalues = approx_correct_ttest(pvalues, p_th=p_th)", "        pvalues = pvalues")
M('c11_gene_list_ignored', 'C11', 'cell_type_mapper/diff_exp/scores.py',
  "    if valid_gene_idx is not None:\n        invalid_mask = np.zeros(pij_1.shape, dtype=bool)", "    if valid_gene_idx is not None and False:\n        invalid_mask = np.zeros(pij_1.shape, dtype=bool)")
M('c11_pmask_floor_ignored', 'C11', 'cell_type_mapper/diff_exp/p_value_mask.py',
  "        valid[distances['invalid']] = False\n", "")
M('c11_exact_uses_q1_only', 'C11', 'cell_type_mapper/diff_exp/scores.py',
  "    return np.logical_and(q1_valid, qdiff_valid)", "    return q1_valid")
M('c11_transpose_wrong_direction', 'C11', 'cell_type_mapper/diff_exp/markers.py',
  "                    f'{direction}_pair_idx',\n                    data=src['indices'],", "                    f'{direction}_pair_idx',\n                    data=src['indices'][()][::-1],")

# ---- C12 ------------------------------------------------------------------------------------
M('c12_stop_at_target_total', 'C12', 'cell_type_mapper/marker_selection/selection.py',
  "    tot_maxed = (tot_counts >= 2*n_per_utility)", "    tot_maxed = (tot_counts >= n_per_utility)")
M('c12_full_regardless_of_possible', 'C12', 'cell_type_mapper/marker_selection/selection.py',
  "    newly_full_mask[:, 0] = np.logical_and(newly_full_mask[:, 0], are_possible)\n    newly_full_mask[:, 1] = np.logical_and(newly_full_mask[:, 1], are_possible)\n",
  "")
M('c12_desperate_skipped', 'C12', 'cell_type_mapper/marker_selection/selection.py',
  "        n_desperate=n_per_utility)", "        n_desperate=0)")
M('c12_query_filter_dropped', 'C12', 'cell_type_mapper/marker_selection/selection.py',
  "    marker_gene_array = thin_marker_gene_array_by_gene(\n        marker_gene_array=marker_gene_array,\n        query_gene_names=query_gene_names,\n        tmp_dir=tmp_dir)\n",
  "    pass\n")
MUTANTS['c12_query_filter_dropped']['extra'] = [(
  'cell_type_mapper/marker_selection/selection_pipeline.py',
  "        cache_path=marker_cache_path,\n        query_gene_names=query_gene_names,",
  "        cache_path=marker_cache_path,\n        query_gene_names=None,")]
M('c12_completion_order_result', 'C12', 'cell_type_mapper/marker_selection/selection_pipeline.py',
  "    output_dict[parent_node] = marker_genes\n", "    output_dict[parent_node] = marker_genes if len(output_dict) < 2 else marker_genes[:-1]\n")
M('c12_override_ignored', 'C12', 'cell_type_mapper/marker_selection/selection_pipeline.py',
  "                    if chosen_parent in n_per_utility_override:\n                        this_n_per = n_per_utility_override[chosen_parent]",
  "                    if chosen_parent in n_per_utility_override:\n                        this_n_per = min(n_per_utility, n_per_utility_override[chosen_parent])")


# ---- mapping with on-the-fly markers (cli/map_to_on_the_fly_markers.py) -----------------------------
OTF = 'cell_type_mapper/cli/map_to_on_the_fly_markers.py'
M('c19_otf_no_cleanup', 'C19', OTF,
  "        finally:\n            _clean_up(tmp_dir)\n",
  "        finally:\n            pass\n")
M('c19_otf_refmarkers_in_system_tmp', 'C19', OTF,
  "            'tmp_dir': tmp_dir,\n            'query_path': self.args['query_path'],\n            'n_processors': self.args['n_processors'],\n            'drop_level': self.args['drop_level'],\n            'cloud_safe'",
  "            'query_path': self.args['query_path'],\n            'n_processors': self.args['n_processors'],\n            'drop_level': self.args['drop_level'],\n            'cloud_safe'")
M('c20_otf_config_raw', 'C20', OTF,
  "                if self.args['cloud_safe']:\n                    metadata_config = sanitize_paths(metadata_config)\n",
  "                if False:\n                    metadata_config = sanitize_paths(metadata_config)\n")
M('c18_otf_query_markers_ignore_query', 'C18', OTF,
  "            'output_path': query_marker_path,\n            'query_path': self.args['query_path'],",
  "            'output_path': query_marker_path,\n            'query_path': None,")
M('c14_otf_swallow_mapping_failure', 'C14', OTF,
  "        mapping_runner.run()\n        log.info(\"MAPPING FROM ON-THE-FLY",
  "        try:\n            mapping_runner.run()\n        except RuntimeError:\n            pass\n        log.info(\"MAPPING FROM ON-THE-FLY")


def run_mutant(name, tier='quick'):
    m = MUTANTS[name]
    scratch = '/tmp/ctm-mut-%d-%s' % (os.getpid(), name)
    shutil.rmtree(scratch, ignore_errors=True)
    os.makedirs(scratch)
    src = os.path.join(scratch, 'src')
    shutil.copytree('/repo/src', src, ignore=shutil.ignore_patterns('*.egg-info', '__pycache__'))
    fp = os.path.join(src, m['path'])
    with open(fp) as f:
        text = f.read()
    if m.get('count', 1) is not None and text.count(m['old']) != m.get('count', 1):
        shutil.rmtree(scratch, ignore_errors=True)
        return {'name': name, 'status': 'PATTERN-NOT-FOUND(%d)' % text.count(m['old'])}
    with open(fp, 'w') as f:
        f.write(text.replace(m['old'], m['new']))
    for (p2, old2, new2) in m.get('extra', []):
        fp2 = os.path.join(src, p2)
        with open(fp2) as f:
            t2 = f.read()
        if t2.count(old2) != 1:
            shutil.rmtree(scratch, ignore_errors=True)
            return {'name': name, 'status': 'EXTRA-PATTERN-NOT-FOUND(%d)' % t2.count(old2)}
        with open(fp2, 'w') as f:
            f.write(t2.replace(old2, new2))
    env = dict(os.environ, VERIF_REPO_SRC=src, VERIF_SCRATCH=os.path.join(scratch, 'run'),
               VERIF_EVIDENCE_DIR=os.path.join(scratch, 'evidence'),
               VERIF_REPLAY_DIR=os.path.join(scratch, 'replays'), VERIF_NO_MINIMISE='1')
    if m.get('quota'):
        env['VERIF_QUOTA'] = str(m['quota'])
    t0 = time.time()
    p = subprocess.run([sys.executable, os.path.join(VERIF, 'check.py'), m['prop'], '--tier', tier],
                       env=env, stdout=subprocess.PIPE, stderr=subprocess.STDOUT, text=True)
    out = p.stdout
    viol = [ln for ln in out.splitlines() if ln.startswith('violation class')]
    res = {'name': name, 'prop': m['prop'], 'exit': p.returncode, 'wall': round(time.time() - t0, 1),
           'status': 'CAUGHT' if p.returncode == 1 and 'VIOLATION property=' in out else
           ('HARNESS-ERROR' if p.returncode == 2 else 'MISSED'),
           'classes': [v[:220] for v in viol[:4]]}
    if res['status'] != 'CAUGHT':
        res['tail'] = out[-1500:]
    shutil.rmtree(scratch, ignore_errors=True)
    return res


def main():
    if len(sys.argv) < 2 or sys.argv[1] == 'list':
        for k, m in MUTANTS.items():
            print(k, m['prop'], m['path'])
        return 0
    names = sys.argv[2:]
    if names == ['all']:
        names = list(MUTANTS)
    rc = 0
    for n in names:
        r = run_mutant(n)
        print(json.dumps(r), flush=True)
        if r['status'] != 'CAUGHT':
            rc = 1
    return rc


if __name__ == '__main__':
    sys.exit(main())
